"""C12: printed values read back as the same value."""
import random
import concurrent.futures
from common import *
import expr as X
import pool

PROP = "C12"
PROP_FILES = ["Properties/C12.v", "Check/C12Check.v"]
N = X.num


def canon(d):
    """canonical form of a dump: members sorted, counts dropped"""
    if "s" in d:
        ms = sorted((canon(m) for m in d["s"]), key=lambda x: json.dumps(x, sort_keys=True))
        return {"s": ms}
    if "t" in d:
        return {"t": [[n, canon(v)] for n, v in d["t"]]}
    return d


def rand_string(rng):
    alphabet = [chr(c) for c in range(0, 32)] + list("'\"\\ab $`{}:,") + ["\x7f", "\u00e9", " ", "\U0001F600", "\ufffd", "\u0100", "\U000E0001", "\U0010FFFF", "\u200b", "\ufeff", "\x85"]
    return "".join(rng.choice(alphabet) for _ in range(rng.randrange(0, 6)))


def rand_name(rng):
    return rng.choice(["a", "b", "a b", "a.b", "", "'", "\"", "it's", "@", "@x", "x-y", "1a", "_", "\\", "a\nb", "é", "(", "a:b", "&a", "true"])


def rand_value(rng, depth=0):
    k = rng.random()
    if depth > 2 or k < 0.2:
        return N(rng.choice([0, 1, -1, 2, 42, 0.5, -1.5, 1000000, 123456789, 1e21, 0.001, 3.25]))
    if k < 0.4:
        s = rand_string(rng)
        return X.string(s, rng.choice([0, 0, 0, 1, -2, 5])) if s else X.string("")
    if k < 0.5:
        return X.tup([(rand_name(rng), rand_value(rng, depth + 1)) for _ in range(rng.randrange(0, 3))])
    if k < 0.6:
        items = [rand_value(rng, depth + 1) if rng.random() < 0.8 else None for _ in range(rng.randrange(0, 4))]
        if items and items[0] is None:
            items[0] = N(1)
        if items and items[-1] is None:
            items[-1] = N(2)
        return X.arr(items, rng.choice([0, 0, 2, -3]))
    if k < 0.68:
        return X.bytes_([rng.randrange(256) for _ in range(rng.randrange(0, 4))], rng.choice([0, 0, 3, -1]))
    if k < 0.78:
        ks = [rand_value(rng, depth + 1) for _ in range(rng.randrange(0, 3))]
        seen, es = [], []
        for kk in ks:
            if X.src(kk) not in seen:
                seen.append(X.src(kk))
                es.append((kk, rand_value(rng, depth + 1)))
        return X.dict_(es) if es else X.set_([])
    if k < 0.86:
        names = rng.sample(["a", "b", "c_d", "@", "x"], rng.randrange(1, 3))
        return X.rel(names, [[rand_value(rng, depth + 2) for _ in names] for _ in range(rng.randrange(1, 3))])
    return X.set_([rand_value(rng, depth + 1) for _ in range(rng.randrange(0, 4))])


def gen_cases(rng, tier):
    P = pool.base_pool()
    out = [("pool " + k, P[k]) for k in sorted(P)]
    # every control character, quotes and backslash alone and in context
    for c in list(range(0, 33)) + [34, 39, 92, 96, 127, 0x80, 0x9f, 0xa0, 0xad, 0xe9, 0x200b, 0x2028, 0x2029, 0xfeff, 0xfffd, 0xe000,
                                   0x1F600, 0x10000, 0xE0001, 0xE007F, 0xF0000, 0x10FFFF, 0x1D173]:
        out.append(("char %d" % c, X.string(chr(c))))
        out.append(("charctx %d" % c, X.string("a" + chr(c) + "b'")))
        out.append(("name %d" % c, X.tup([(chr(c) + "k", N(1))])))
    # the same strings built WITHOUT any string literal (spelled-out character tuples), so that what is tested is the printed
    # form alone - a reader that refuses an escape the printer emits cannot hide behind a construction that fails the same way:
    # each rune alone, last, first and in the middle
    def spelled(codes):
        return X.set_([X.tup([("@", N(i)), ("@char", N(c))]) for i, c in enumerate(codes)])
    for c in list(range(0, 33)) + [34, 39, 92, 96, 127, 0x80, 0x9f, 0xa0, 0xad, 0xfffd, 0x10FFFF]:
        out.append(("spelled alone %d" % c, spelled([c])))
        out.append(("spelled last %d" % c, spelled([97, 98, c])))
        out.append(("spelled first %d" % c, spelled([c, 97])))
        out.append(("spelled mid %d" % c, spelled([97, c, 39, 98])))
        out.append(("spelled key %d" % c, X.set_([X.tup([("@", spelled([107, c])), ("@value", N(1))])])))
    extra = [X.binop("without", X.string("abc"), X.tup([("@", N(1)), ("@char", N(98))])),
             X.bytes_([1, 2], 2), X.bytes_([1, 2], -1), X.arr([N(1), None, N(3)], 2), X.arr([N(1)], -5), X.string("ab", -5),
             X.binop("|", X.dict_([(X.string("a"), N(1))]), X.dict_([(X.string("a"), N(2))])),
             X.tup([("", N(2)), ("a b", N(1)), ("a.b", N(4))]), X.set_([X.true_(), X.set_([])]), X.unop("-", X.set_([N(1)])),
             X.tup([("@", N(0)), ("@char", N(97))]), X.tup([("@", X.string("k")), ("@value", N(1))])]
    extra += [X.set_([X.tup([("c d", N(1))]), X.tup([("c d", N(2))])]), X.set_([X.tup([("a,b", N(1)), ("c|d", N(2))]), X.tup([("a,b", N(3)), ("c|d", N(4))])]),
              X.set_([X.tup([("", N(1))]), X.tup([("", N(2))])])]
    out += [("extra %d" % i, e) for i, e in enumerate(extra)]
    # attribute names that look like syntax, alone in a tuple, as the heading of a relation (two rows), two of them, nested
    NAMES = ["a, b", "first, last", "x, y, z", "a,b", "a b", ",", ", ", "|", "a|b", "(", ")", "a)", "(a", ":", "a: b", "\"", "'", "`", " ", " a", "a ",
             "@", "@x", "1a", "a-b", "a.b", "...", "\\", "\u00e9", "", "true", "let", "a\nb", "{", "}", "|a, b|", "a,", ", a"]
    for i, nm in enumerate(NAMES):
        other = NAMES[(i * 7 + 3) % len(NAMES)]
        out.append(("attrname", X.tup([(nm, N(1))])))
        out.append(("attrname rel", X.set_([X.tup([(nm, N(1))]), X.tup([(nm, N(2))])])))
        if other != nm:
            out.append(("attrname rel2", X.set_([X.tup([(nm, N(1)), (other, N(2))]), X.tup([(nm, N(3)), (other, N(4))])])))
        out.append(("attrname nested", X.arr([X.tup([("k", X.set_([X.tup([(nm, N(1))]), X.tup([(nm, N(2))])]))])])))
    for i in range(400 if tier == "quick" else 4000):
        out.append(("rand", rand_value(rng)))
    # byte arrays (printable and not, quotes, offsets), negative numbers and escapes as dict keys, nested holes, sets of sets
    BY = [0, 9, 10, 34, 39, 92, 96, 97, 122, 127, 128, 255, 60, 62]
    for _ in range(60 if tier == "quick" else 600):
        bs = [rng.choice(BY) for _ in range(rng.randrange(1, 5))]
        b = X.bytes_(bs, rng.choice([0, 0, 2, -1, 5]))
        out.append(("bytes", b))
        if rng.random() < 0.4:
            out.append(("bytes nested", X.tup([("b", X.arr([b, X.bytes_([rng.choice(BY)])])), ("s", X.set_([b]))])))
    keys = [N(-1), N(-2.5), N(0), X.string("a'b"), X.string('a"b'), X.string("a\\b"), X.string("\n"), X.string(""), X.set_([]), X.arr([N(-1)]), X.tup([("k", N(-1))]),
            X.bytes_([97]), X.set_([N(1), N(2)]), X.true_()]
    for _ in range(60 if tier == "quick" else 600):
        ks = rng.sample(keys, rng.randrange(1, 4))
        out.append(("dict keys", X.dict_([(k, rng.choice([N(-3), X.string("v"), X.dict_([(N(-1), N(1))]), X.arr([N(1), None, N(-2)])])) for k in ks])))
    out += [("nested holes", X.arr([X.arr([N(1), None, N(3)]), None, X.arr([None, N(2)], 0) if False else X.arr([N(2)], 1)])),
            ("neg in array", X.arr([N(-1), N(-0.5), X.unop("-", X.set_([N(1)]))])), ("neg in tuple", X.tup([("a", N(-1)), ("b", X.arr([N(-2)]))])),
            ("sets of sets", X.set_([X.set_([X.set_([])]), X.set_([X.set_([N(1)]), X.set_([])]), X.set_([])])),
            ("empty kinds", X.tup([("a", X.string("")), ("b", X.arr([])), ("c", X.dict_([])), ("d", X.set_([])), ("e", X.tup([])), ("f", X.arr([X.set_([]), X.tup([])]))]))]
    cases = [{"id": i, "label": l, "ast": e, "src": X.src(e)} for i, (l, e) in enumerate(out)]
    # numbers whose shortest decimal form is under 15 characters: powers of ten around the switch to exponent notation,
    # the extremes of the double range, and subnormals (1 ulp apart) - alone and inside a container
    import struct
    nums = ["0", "1", "0.1", "0.5", "1.5", "100", "1e21", "1e20", "123456789012", "1e-7", "1e-6", "0.000001", "1.5e300", "1e308", "1.7e308", "5e-324", "1e-323",
            "2.5e-310", "0.333333333333", "1234.5678", "9007199254740993", "4.946e-321", "1.003e-321", "4.94006e-319", "2.2250738585e-308", "1e-300", "7e22", "1e15", "1e16"]
    for _ in range(120 if tier == "quick" else 3000):
        bits = rng.randrange(1, 1 << rng.choice([10, 12, 16, 20, 24, 27, 40, 52]))
        nums.append(repr(struct.unpack("<d", struct.pack("<Q", bits))[0]))
    for _ in range(60 if tier == "quick" else 1500):
        nums.append(repr(rng.choice([1, -1]) * rng.random() * 10 ** rng.randrange(-320, 309)))
    for t in nums:
        t = t if not t.startswith("-") else "(%s)" % t
        if len(t.strip("()-")) >= 15:
            t = "%.8g" % float(t.strip("()"))
        cases.append({"id": len(cases), "label": "number", "src": t})
        if rng.random() < 0.3:
            cases.append({"id": len(cases), "label": "number nested", "src": "(a: [{%s: {%s}}])" % (t, t)})
    return cases


def num_ok(d):
    """numbers whose shortest decimal form is under 15 characters (the property's restriction)"""
    if "n" in d:
        return len(d["n"]) < 15 and "e" not in d["n"].lower() or (len(d["n"]) < 15)
    if "s" in d:
        return all(num_ok(m) for m in d["s"])
    if "t" in d:
        return all(num_ok(v) for _, v in d["t"])
    return True


def _pairs(d, kind):
    out = []
    for m in d.get("s", []):
        t = m.get("t")
        if t and len(t) == 2 and t[0][0] == "@" and t[1][0] == kind:
            out.append((json.dumps(t[0][1], sort_keys=True), t[1][1]))
    return out


def region(d):
    """known-finding regions, decided on the dump of the value that was printed"""
    if "t" in d:
        for _, v in d["t"]:
            r = region(v)
            if r:
                return r
        return None
    if "s" in d:
        chars = _pairs(d, "@char")
        if chars and len(chars) == len(d["s"]):
            idx = sorted(int(float(json.loads(k)["n"])) for k, _ in chars if "n" in json.loads(k))
            if idx and idx[-1] - idx[0] + 1 != len(idx):
                return "string-hole-fffd"
        ents = _pairs(d, "@value")
        if ents and len(set(k for k, _ in ents)) != len(ents):
            return "dict-multi-reparse"
        for m in d["s"]:
            r = region(m)
            if r:
                return r
    return None


CODES = {1: "the printer model (Sys/Printer.v print) and fu.Repr write different bytes",
         2: "the round trip read (print w) = norm w fails inside the model on a printable value (theorem C12_print_read_round_trip_partial)",
         3: "the reader model (Sys/Reader.v) and syntax.EvaluateExpr read different values from the printed text"}


def model_correspondence(run, cases, o1, o2, hist):
    """printer model vs fu.Repr byte for byte, reader model vs EvaluateExpr of the printed text; evaluated inside Coq"""
    terms, byid = [], {}
    hist.update({"model_compared": 0, "model_outside_numbers": 0, "model_not_printable": 0, "model_by_go_type": {}})
    for c in cases:
        a = o1.get(c["id"]) or {}
        if a.get("st") != "ok" or "ord" not in a:
            continue
        w = val_term(a["ord"])
        if w is None:
            hist["model_outside_numbers"] += 1
            continue
        b = o2.get(c["id"]) or {}
        bt = val_term(b["val"]) if b.get("st") == "ok" and "val" in b else None
        byid[c["id"]] = (c, a, b)
        terms.append("{| p_id := %d; p_ord := %s; p_repr := %s; p_back := %s |}" % (
            c["id"], w, zl(a["repr"].encode("utf-8")), ("Some " + bt) if bt else "None"))
    chunks = [terms[i:i + 150] for i in range(0, len(terms), 150)]

    def do(ic):
        k, chunk = ic
        src = ("From Arrai Require Import Base.Val Check.C12Check.\nDefinition cases : list case12 := [\n" + ";\n".join(chunk) +
               "].\nDefinition R := Eval vm_compute in report12 cases.\nPrint R.\n")
        rc, so, se = coq_eval("c12_cases_%d_%d" % (os.getpid(), k), src)
        return coq_report(so, "R"), se

    with concurrent.futures.ThreadPoolExecutor(max_workers=6) as ex:
        for (rep, se), chunk in zip(ex.map(do, enumerate(chunks)), chunks):
            if rep is None:
                run.corr_breaks.append({"what": "the printer / reader model could not be evaluated (Check/C12Check.v)", "log": se[-1200:]})
                continue
            bad = dict(rep)
            for t in chunk:
                cid = int(t.split("p_id := ")[1].split(";")[0])
                c, a, b = byid[cid]
                code = bad.get(cid, 0)
                if code == 9:
                    hist["model_not_printable"] += 1
                    if region(a["val"]) is None:
                        run.corr_breaks.append({"what": "a value outside `printable` that is in no open finding's region",
                                                "case": {"label": c["label"], "src": c["src"], "printed": a.get("repr")}})
                    continue
                hist["model_compared"] += 1
                ty = a.get("type", "?")
                hist["model_by_go_type"][ty] = hist["model_by_go_type"].get(ty, 0) + 1
                if code:
                    run.corr_breaks.append({"what": CODES.get(code, str(code)), "theorem": "C12_print_read_round_trip_partial",
                                            "case": {"label": c["label"], "src": c["src"], "printed": a.get("repr"), "enumerated": a.get("ord")},
                                            "read_back": b.get("val")})


def main(tier, seed, replay=None):
    run = Run(PROP, tier, seed)
    vh, proof = prepare(PROP_FILES, thorough=(tier == "thorough"))
    rng = random.Random(seed)
    if replay:
        rp = json.load(open(replay))
        cases = [{"id": 0, "label": "replay", "src": rp["case"]["src"]}]
    else:
        cases = gen_cases(rng, tier)
    o1, _, _ = run_harness(vh, "c12", [{"id": c["id"], "src": c["src"], "budget_ms": 4000} for c in cases], stall=8)
    second = []
    for c in cases:
        o = o1.get(c["id"]) or {}
        if o.get("st") == "ok" and "val" in o and "f" not in o["val"]:
            second.append({"id": c["id"], "src": o["repr"]})
    o2, _, _ = run_harness(vh, "eval", [dict(x, budget_ms=4000) for x in second], stall=8)
    hist = {"roundtrip_ok": 0, "construct_failed": 0, "skipped_numbers": 0,
            "timeouts": sum(1 for o in list(o1.values()) + list(o2.values()) if o.get("st") == "timeout")}
    dist, seen = 0, set()
    for c in cases:
        a = o1.get(c["id"]) or {}
        if a.get("st") != "ok" or "val" not in a:
            hist["construct_failed"] += 1
            # every program of the ENUMERATED pool constructs its value on the unchanged tree: one that does not means part of the
            # claim went unexplored (random values may legitimately fail to construct, e.g. a dict literal with two spellings of one key)
            if c["label"].split(" ")[0] in ("spelled", "char", "charctx", "name", "pool", "attrname", "extra"):
              run.corr_breaks.append({"what": "a value-constructing program of the C12 pool does not evaluate (its round trip could not be explored)",
                                    "case": {"label": c["label"], "src": c["src"]}, "observed": {k: a.get(k) for k in ("st", "msg", "site")}})
            continue
        if not num_ok(a["val"]):
            hist["skipped_numbers"] += 1
            continue
        b = o2.get(c["id"]) or {"st": "missing"}
        rec = {"case": {"label": c["label"], "src": c["src"], "printed": a.get("repr")}, "observed": b}
        sig = region(a["val"])
        if b.get("st") != "ok":
            rec["oracle"] = "the printed form does not evaluate (%s)" % b.get("st")
            run.classify_failure(sig, rec)
            continue
        if canon(b["val"]) != canon(a["val"]):
            rec["oracle"] = "the printed form evaluates to a different value"
            run.classify_failure(sig, rec)
            continue
        if b.get("repr") != a.get("repr"):
            rec["oracle"] = "the re-read value prints differently"
            run.classify_failure(sig, rec)
            continue
        hist["roundtrip_ok"] += 1
        if a["repr"] not in seen:
            seen.add(a["repr"])
            if a["val"] not in ({"s": [], "c": 0},):
                dist += 1
    model_correspondence(run, cases, o1, o2, hist)
    step = max(1, len(cases) // 8)
    run.cov.update({"evaluations": len(cases) + len(second), "distinct_nontrivial": dist,
                    "rule": "values from the shared pool (every representation), every control character / quote / backslash / non-BMP rune alone, in context and inside attribute names, offset and sparse sequences, multi-valued dicts, @neg wrappers, byte arrays of printable / non-printable / quote bytes with offsets, dicts keyed by negative numbers, strings needing escapes, sets, arrays, tuples and byte arrays, nested holes, sets of sets, empty values of every kind inside containers, 38 attribute names that look like syntax (`a, b`, `|`, `(`, `:`, keywords, ...) in tuples and as relation headings, numbers around the switch to exponent notation, at the extremes of the double range and subnormals, plus random nested values; each is printed (fu.Repr), compared byte for byte with the printer model run on the value as the implementation enumerates it (Check/C12Check.v, inside Coq), the text evaluated again (syntax.EvaluateExpr) and the canonical dumps and printed forms compared; distinct by printed form, non-trivial = non-empty value that round-trips; numbers restricted to those printing in < 15 characters",
                    "samples": [(o1.get(cases[i]["id"]) or {}).get("repr") for i in range(0, len(cases), step)][:8],
                    "outcome_histogram": hist, "exhaustive": False})
    run.assumptions = ["strconv float formatting (beyond integers and half-integers) and the wbnf grammar engine are exercised, not modelled; the lexer (text to tokens) is not modelled: the reader model runs on the printer model's tokens after their rendering was found equal to fu.Repr byte for byte",
                       "UTF-8 encoding of runes >= 128 passes through printer and parser unchanged"]
    return run.finish(proof)
