"""Differential run of arr.ai programs: implementation (vharness eval) vs the Coq reference interpreter."""
import concurrent.futures
from common import *
import expr as X


def counts_ok(d):
    """Count() equals the number of enumerated members at every level of the dump."""
    if "s" in d:
        return d.get("c") == len(d["s"]) and all(counts_ok(m) for m in d["s"])
    if "t" in d:
        return all(counts_ok(v) for _, v in d["t"])
    return True


def obs_term(o):
    if o is None or o.get("st") in ("timeout", "panic", "crash"):
        return "OBad"
    if o["st"] == "err":
        return "OErr"
    d = o["val"]
    if "f" in d:
        return "OFun"
    if not counts_ok(d):
        return "OBad"
    t = val_term(d)
    return "OBad" if t is None else "(OVal %s)" % t


def evaluate(vh, cases, shard=400, env=None, budget_ms=None):
    """cases: [{'id', 'ast'} or {'id','src','coq'}] -> (observations by id, codes by id (0 = agree), coq failures)"""
    for c in cases:
        if "src" not in c:
            c["src"] = X.src(c["ast"])
            c["coq"] = X.coq(c["ast"])
    reqs = [{"id": c["id"], "src": c["src"]} for c in cases]
    if budget_ms:
        for r in reqs:
            r["budget_ms"] = budget_ms
    outs, rc, err = run_harness(vh, "eval", reqs, env=env)
    chunks = [cases[i:i + shard] for i in range(0, len(cases), shard)]
    codes, fails = {}, []

    def do(ic):
        idx, chunk = ic
        body = ["From Arrai Require Import Base.Val Spec.SetAlg Eval.Interp Check.EvalCheck.",
                "Definition cases : list ecase := ["]
        body.append(";\n".join("  {| e_id := %d; e_expr := %s; e_obs := %s |}" % (c["id"], c["coq"], obs_term(outs.get(c["id"]))) for c in chunk))
        body.append("].\nDefinition R := Eval vm_compute in report cases.\nPrint R.")
        rc2, so, se = coq_eval("ev_cases_%d_%d" % (os.getpid(), idx), "\n".join(body))
        return coq_report(so, "R"), se

    with concurrent.futures.ThreadPoolExecutor(max_workers=12) as ex:
        for (rep, se), chunk in zip(ex.map(do, enumerate(chunks)), chunks):
            if rep is None:
                fails.append(se[-1500:])
                continue
            for c in chunk:
                codes[c["id"]] = 0
            for cid, code in rep:
                codes[cid] = code
    return outs, codes, fails


CODE_TEXT = {1: "implementation value differs from the specified value", 2: "implementation fails where a value is specified",
             3: "implementation panics/hangs where a value is specified", 4: "implementation yields a value where an error is specified",
             5: "implementation panics/hangs where an error is specified", 6: "function/value mismatch", 9: "outside the specified fragment"}


REGION_SIGS = {1: "seq-collision", 2: "bytes-gap", 3: "sugar-tuple-ill-typed"}


def judge(run, cases, outs, codes, fails, oracle, value_codes=(1, 2, 3), corr_codes=(4, 5, 6), skip_regions=False, sig_of=None):
    """Standard verdicts for a differential run against the reference interpreter.
    code = verdict + 100 * region; a failure inside the region of an open finding is attributed to it."""
    for f in fails:
        run.corr_breaks.append({"what": "reference interpreter could not be evaluated (Check/EvalCheck.v)", "log": f})
    for c in cases:
        code = codes.get(c["id"])
        if code in (None, 0, 9):
            continue
        base, region = code % 100, code // 100
        sig = REGION_SIGS.get(region)
        o = outs.get(c["id"]) or {}
        if not sig and o.get("st") == "panic" and o.get("site") == "rel:NewTuple" and "interface conversion" in (o.get("msg") or ""):
            # NewTuple's unchecked .(Number) assertion on a sugar-shaped tuple: the model may reach another error of the
            # same expression first (it visits members in canonical order), so the region test cannot see this one
            region, sig = 3, REGION_SIGS[3]
        if not sig and sig_of is not None:
            sig = sig_of(c)       # a region the property's own generator decides on the case (computed, never a list of inputs)
        if region and skip_regions:
            continue      # inside the region of a finding that belongs to another property
        rec = {"case": {"label": c.get("label"), "src": c["src"], "coq": c["coq"]}, "observed": outs.get(c["id"]),
               "oracle": oracle + ": " + CODE_TEXT.get(base, str(base))}
        if base in value_codes:
            run.classify_failure(sig, rec)
        elif base in corr_codes:
            if sig and run.finding_for(sig):
                run.classify_failure(sig, rec)
            else:
                run.corr_breaks.append({"what": "implementation and reference interpreter disagree outside the property's own oracle", **rec})


def stats(run, cases, outs, codes, rule, extra=None):
    seen, dist, hist = set(), 0, {}
    for c in cases:
        o = outs.get(c["id"]) or {}
        code = codes.get(c["id"])
        hist[str(code)] = hist.get(str(code), 0) + 1
        if c["src"] in seen:
            continue
        seen.add(c["src"])
        if o.get("st") == "ok" and code == 0 and o.get("val") not in ({"s": [], "c": 0},):
            dist += 1
    step = max(1, len(cases) // 8)
    run.cov.update({"evaluations": len(cases), "distinct_nontrivial": dist,
                    "rule": rule + "; distinct by source text; non-trivial = the implementation returned a non-empty value that agrees with the reference interpreter",
                    "samples": [cases[i]["src"] for i in range(0, len(cases), step)][:8],
                    "verdict_code_histogram": hist})
    if extra:
        run.cov.update(extra)


def replay_cases(path):
    rp = json.load(open(path))
    c = rp.get("case")
    if not c or "src" not in c:
        return []
    return [{"id": 0, "label": c.get("label"), "src": c["src"], "coq": c["coq"]}]
