"""C14: //seq functions on strings, byte arrays and arrays vs the Coq model (Sys/SeqStd.v)."""
import itertools
import random
from common import *

PROP = "C14"
PROP_FILES = ["Properties/C14.v", "Check/C14Check.v"]
ENCS = ["EStr", "EBytes", "EArr"]


def lit(enc, xs):
    if enc == "EStr":
        return '"' + "".join(chr(97 + x) for x in xs) + '"'
    if enc == "EBytes":
        return "<<" + ", ".join(str(97 + x) for x in xs) + ">>"
    return "[" + ", ".join(str(x) for x in xs) + "]"


def lits(enc, xss):
    return "[" + ", ".join(lit(enc, xs) for xs in xss) + "]"


def source(enc, call):
    f = call[0]
    if f in ("contains", "has_prefix", "has_suffix", "split", "trim_prefix", "trim_suffix"):
        return "//seq.%s(%s, %s)" % (f, lit(enc, call[1]), lit(enc, call[2]))
    if f == "join":
        return "//seq.join(%s, %s)" % (lit(enc, call[1]), lits(enc, call[2]))
    if f == "sub":
        return "//seq.sub(%s, %s, %s)" % (lit(enc, call[1]), lit(enc, call[2]), lit(enc, call[3]))
    if f == "repeat":
        return "//seq.repeat(%d, %s)" % (call[1], lit(enc, call[2]))
    if f == "concat":
        return "//seq.concat(%s)" % lits(enc, call[1])
    raise ValueError(f)


def coq_call(call):
    f = call[0]
    ctor = {"contains": "CContains", "has_prefix": "CHasPrefix", "has_suffix": "CHasSuffix", "split": "CSplit",
            "trim_prefix": "CTrimPrefix", "trim_suffix": "CTrimSuffix", "sub": "CSub"}
    if f in ctor:
        return "(%s %s)" % (ctor[f], " ".join(zl(a) for a in call[1:]))
    if f == "join":
        return "(CJoin %s %s)" % (zl(call[1]), zll(call[2]))
    if f == "repeat":
        return "(CRepeat %d %s)" % (call[1], zl(call[2]))
    if f == "concat":
        return "(CConcat %s)" % zll(call[1])


KIND = {"@char": "EStr", "@byte": "EBytes", "@item": "EArr"}


def decode_seq(d, nested):
    """dump of a set of (@:i, @k:x) pairs -> (enc|None, list) or None when not a dense zero-based sequence."""
    if "s" not in d:
        return None
    items, kinds = [], set()
    for m in d["s"]:
        if "t" not in m or len(m["t"]) != 2 or m["t"][0][0] != "@" or "n" not in m["t"][0][1]:
            return None
        k = m["t"][1][0]
        if k not in KIND:
            return None
        kinds.add(KIND[k])
        try:
            i = int(m["t"][0][1]["n"])
        except ValueError:
            return None
        items.append((i, m["t"][1][1]))
    if len(kinds) > 1 or d.get("c") != len(items):
        return None
    items.sort(key=lambda p: p[0])
    if [p[0] for p in items] != list(range(len(items))):
        return None
    enc = kinds.pop() if kinds else None
    out = []
    for _, x in items:
        if nested:
            out.append(x)
        else:
            if "n" not in x:
                return None
            try:
                v = int(x["n"])
            except ValueError:
                return None
            out.append(v - 97 if enc in ("EStr", "EBytes") else v)
    return enc, out


def observe(enc, call, o):
    """harness observation -> Coq obs14 term"""
    if o is None or o.get("st") in ("timeout", "panic", "crash"):
        return "OBad"
    if o["st"] == "err":
        return "OErr"
    d = o["val"]
    f = call[0]
    if f in ("contains", "has_prefix", "has_suffix"):
        if d == {"s": [], "c": 0}:
            return "(OBool false)"
        if d == {"s": [{"t": []}], "c": 1}:
            return "(OBool true)"
        return "OBad"
    if f == "split":
        r = decode_seq(d, True)
        if r is None or (r[0] not in (None, "EArr")):
            return "OBad"
        parts, encs = [], set()
        for x in r[1]:
            q = decode_seq(x, False)
            if q is None:
                return "OBad"
            if q[0]:
                encs.add(q[0])
            parts.append(q[1])
        if len(encs) > 1:
            return "OBad"
        return "(OSeqs %s %s)" % (encs.pop() if encs else enc, zll(parts))
    r = decode_seq(d, False)
    if r is None:
        return "OBad"
    return "(OSeq %s %s)" % (r[0] or enc, zl(r[1]))


def seqs(alpha, maxlen):
    for n in range(maxlen + 1):
        for t in itertools.product(range(alpha), repeat=n):
            yield list(t)


def gen_cases(rng, tier):
    calls = []
    fns2 = ["contains", "has_prefix", "has_suffix", "split", "trim_prefix", "trim_suffix"]
    if tier == "thorough":
        # exhaustive small scope: all subjects <= 6 over 2 symbols x patterns <= 3
        subs = list(seqs(2, 3))
        subjects = list(seqs(2, 6))
        for f in fns2:
            for a in subs:
                for b in subjects:
                    calls.append((f, a, b))
        for a in list(seqs(2, 2)):
            for n in list(seqs(2, 2)):
                for b in list(seqs(2, 5)):
                    calls.append(("sub", a, n, b))
    nrand = 600 if tier == "quick" else 6000

    def rseq(maxlen, alpha=None):
        alpha = alpha or rng.choice([2, 2, 3])
        return [rng.randrange(alpha) for _ in range(rng.randrange(maxlen + 1))]
    for _ in range(nrand):
        k = rng.random()
        if k < 0.55:
            f = rng.choice(fns2)
            subject = rseq(8)
            r = rng.random()
            if r < 0.35 and len(subject) >= 1:      # pattern cut from the subject (occurs for sure)
                i = rng.randrange(len(subject)); j = rng.randrange(i, len(subject) + 1)
                pat = subject[i:j]
            elif r < 0.5:                               # near miss: occurring window with one symbol changed
                i = rng.randrange(len(subject) + 1); j = rng.randrange(i, len(subject) + 1)
                pat = list(subject[i:j])
                if pat:
                    pat[rng.randrange(len(pat))] = rng.randrange(3)
            else:
                pat = rseq(4)
            calls.append((f, pat, subject))
        elif k < 0.7:
            calls.append(("sub", rseq(3), rseq(3), rseq(8)))
        elif k < 0.82:
            calls.append(("join", rseq(2), [rseq(3) for _ in range(rng.randrange(4))]))
        elif k < 0.9:
            calls.append(("repeat", rng.randrange(4), rseq(3)))
        else:
            calls.append(("concat", [rseq(3) for _ in range(rng.randrange(4))]))
    # partial match followed by a real occurrence that starts inside it: subject = p[:k] (+ p[:k]) + p (+ tail)
    overlap = []
    for n in range(2, 7):
        for t in itertools.product(range(2), repeat=n):
            pat = list(t)
            for k in range(1, n):
                overlap.append((pat, pat[:k] + pat))
                overlap.append((pat, pat[:k] + pat[:k] + pat + [1 - pat[-1]]))
    if tier != "thorough":
        overlap = rng.sample(overlap, 260)
    for pat, subject in overlap:
        f = rng.choice(["contains", "contains", "split", "has_suffix", "trim_suffix"]) if tier != "thorough" else None
        for g in ([f] if f else ["contains", "split", "has_suffix", "trim_suffix", "has_prefix"]):
            calls.append((g, pat, subject))
        if tier == "thorough" or rng.random() < 0.3:
            calls.append(("sub", pat, [2], subject))
    # failure-table core (enumerated, independent of the random stream): patterns whose longest border itself has a border
    # (x^k y rest, k = 3..4): a matcher that falls back only one border step after a mismatch pre-approves text that is not
    # there.  subject = the pattern up to and including the mismatching symbol, continued with the pattern from position j
    for k in (3, 4):
        for rest_n in (1, 2):
            for rest in itertools.product(range(2), repeat=rest_n):
                for x in (0, 1):
                    pat = [x] * k + [1 - x] + [(1 - x) if r else x for r in rest]
                    for j in (1, 2):
                        subject = pat[:k + 1] + pat[j:]
                        calls.append(("contains", pat, subject))
                        calls.append(("split", pat, subject))
                        calls.append(("sub", pat, [2], subject))
    # self-overlap corpus (minimised past failures run first)
    corpus = [("contains", [0, 0, 1], [0, 0, 0, 1]), ("has_suffix", [2, 1], [0, 1, 1]), ("split", [0, 0, 1], [0, 0, 0, 1, 1]),
              ("sub", [0, 0, 1], [2], [0, 0, 0, 1, 0]), ("trim_suffix", [2, 1], [0, 1, 1]), ("has_suffix", [0, 1], [1]),
              ("has_prefix", [0, 1], [0]), ("contains", [], [0]), ("contains", [], []), ("split", [], [0, 1]),
              ("join", [], [[], [0]]), ("join", [2], [[0], [], [1]]), ("concat", [[], [0], [1, 1]]), ("repeat", 0, [1]),
              ("trim_prefix", [0, 1], [0, 1]), ("trim_suffix", [0, 1], [0, 1]), ("sub", [], [2], [0, 1]), ("sub", [], [2], []),
              ("contains", [0, 1, 0, 0], [0, 1, 0, 1, 0, 0]), ("split", [0, 1, 0, 0], [0, 1, 0, 1, 0, 0, 1]), ("join", [2], [[], [0]]), ("join", [2], [[], [], [1]])]
    calls = corpus + calls
    cases = []
    for i, c in enumerate(calls):
        for enc in ENCS:
            cases.append({"id": len(cases), "enc": enc, "call": c, "src": source(enc, c)})
    return cases


def nontrivial(case, o):
    """non-trivial: evaluates to a value, with non-empty subject and non-empty pattern/arguments"""
    c = case["call"]
    return o is not None and o.get("st") == "ok" and all((a != [] and a != 0) for a in c[1:])


def run_cases(run, vh, cases, shard=1500):
    outs, rc, err = run_harness(vh, "eval", [{"id": c["id"], "src": c["src"]} for c in cases])
    results = {}
    import concurrent.futures
    chunks = [cases[i:i + shard] for i in range(0, len(cases), shard)]

    def do(idx_chunk):
        idx, chunk = idx_chunk
        body = ["From Arrai Require Import Base.Val Sys.SeqStd Check.C14Check.", "Definition cases : list case14 := ["]
        body.append(";\n".join("  {| c_id := %d; c_enc := %s; c_call := %s; c_obs := %s |}" % (
            c["id"], c["enc"], coq_call(c["call"]), observe(c["enc"], c["call"], outs.get(c["id"]))) for c in chunk))
        body.append("].\nDefinition R := Eval vm_compute in report cases.\nPrint R.")
        rc2, so, se = coq_eval("c14_cases_%d" % idx, "\n".join(body))
        rep = coq_report(so, "R")
        return rc2, rep, se

    with concurrent.futures.ThreadPoolExecutor(max_workers=12) as ex:
        for (rc2, rep, se), chunk in zip(ex.map(do, enumerate(chunks)), chunks):
            if rep is None:
                run.corr_breaks.append({"what": "model evaluation failed (Check/C14Check.v)", "log": se[-1500:]})
                continue
            for cid, code in rep:
                results[cid] = code
    return outs, results


def main(tier, seed, replay=None):
    run = Run(PROP, tier, seed)
    vh, proof = prepare(PROP_FILES, thorough=(tier == "thorough"))
    rng = random.Random(seed)
    if replay:
        rp = json.load(open(replay))
        cases = [rp["case"]] if "case" in rp else []
        for i, c in enumerate(cases):
            c["id"] = i
            c["call"] = tuple(c["call"])
    else:
        cases = gen_cases(rng, tier)
    outs, results = run_cases(run, vh, cases)
    byid = {c["id"]: c for c in cases}
    seen, dist = set(), 0
    hist = {}
    for c in cases:
        o = outs.get(c["id"])
        key = c["src"]
        hist[c["call"][0]] = hist.get(c["call"][0], 0) + 1
        if key not in seen:
            seen.add(key)
            if nontrivial(c, o):
                dist += 1
    for cid, code in sorted(results.items()):
        c, o = byid[cid], outs.get(cid)
        rec = {"case": {"enc": c["enc"], "call": c["call"], "src": c["src"]}, "observed": o,
               "oracle": "result differs from the abstract sequence operation proved in Properties/C14.v (model run_call)"}
        if code == 1:
            run.classify_failure(None, rec)
        elif code == 2:
            run.corr_breaks.append({"what": "implementation no longer fails where the model says the operation is unsupported", **rec})
    run.cov.update({
        "evaluations": len(cases), "distinct_nontrivial": dist,
        "rule": "cases = (function, abstract sequences over 2-3 symbols incl. self-overlapping and cut-from-subject patterns) x 3 encodings, "
                "run through syntax.EvaluateExpr and through the Coq model (vm_compute); distinct by source text; non-trivial = evaluates to a value "
                "and all arguments non-empty" + ("; thorough adds all subjects <= 6 x patterns <= 3 over 2 symbols for the 6 binary functions and sub (exhaustive small scope)" if tier == "thorough" else ""),
        "samples": [cases[i]["src"] for i in range(0, len(cases), max(1, len(cases) // 8))][:8],
        "function_histogram": hist,
        "exhaustive": False,
    })
    run.assumptions = ["Go strings/bytes package functions behave as the reference functions of Sys/SeqStd.v (exercised by this run)",
                       "sequences are dense and zero-based (holes/offsets are outside C14)"]
    return run.finish(proof)
