"""Abstract arr.ai expressions: one tree, two renderings — arr.ai source text for the
implementation and a Coq `expr` term for the reference interpreter (coq/Eval/Interp.v)."""
from common import zl, name_term

BINOPS = {"|": "BUnion", "&": "BInter", "&~": "BDiff", "~~": "BSymDiff", "with": "BWith", "without": "BWithout",
          "++": "BConcat", "+": "BAdd", "-": "BSub", "*": "BMul", "+>": "BMerge", "\\": "BOffset"}
CMPOPS = {"<:": "CMem", "!<:": "CNotMem", "=": "CEq", "!=": "CNe", "<": "CLt", ">": "CGt", "<=": "CLe", ">=": "CGe",
          "(<)": "CSub", "(>)": "CSup", "(<=)": "CSubEq", "(>=)": "CSupEq", "(<>)": "CSubSup", "(<>=)": "CSubSupEq"}
JOINOPS = {"<&>": "JJoin", "<->": "JCompose", "-&-": "JCommon", "---": "JExists", "-&>": "JRightMatch", "<&-": "JLeftMatch",
           "-->": "JRightResidue", "<--": "JLeftResidue"}
UNOPS = {"-": "UNeg", "count": "UCount", "^": "UPow", "!": "UNot"}

IDENT_OK = __import__("re").compile(r"^[$@A-Za-z_][0-9$@A-Za-z_]*$")


def qstr(s):
    out = ['"']
    for ch in s:
        if ch == '"' or ch == "\\":
            out.append("\\" + ch)
        elif ch == "\n":
            out.append("\\n")
        elif ch == "\t":
            out.append("\\t")
        elif ch == "\r":
            out.append("\\r")
        elif ord(ch) < 32 or ord(ch) == 127:
            out.append("\\x%02x" % ord(ch))
        else:
            out.append(ch)
    out.append('"')
    return "".join(out)


def attr_name(n):
    return n if IDENT_OK.match(n) and n != "." else qstr(n)


def num_src(x):
    if x == int(x):
        return str(int(x)) if x >= 0 else "(-%d)" % int(-x)
    return repr(float(x)) if x >= 0 else "(-%s)" % repr(float(-x))


def num_coq(x):
    if x == int(x):
        return "(VNum (NInt (%d)))" % int(x)
    return "(VNum (NHalf (%d)))" % int(x - 0.5)


# ---------- constructors (plain tuples) ----------
def num(x): return ("num", x)
def string(s, off=0): return ("str", s, off)
def bytes_(bs, off=0): return ("bytes", list(bs), off)
def arr(items, off=0): return ("arr", list(items), off)
def set_(items): return ("set", list(items))
def tup(attrs): return ("tup", list(attrs))
def dict_(entries): return ("dict", list(entries))
def rel(names, rows): return ("rel", list(names), [list(r) for r in rows])
def binop(op, a, b): return ("bin", op, a, b)
def cmpop(op, a, b): return ("cmp", op, a, b)
def unop(op, a): return ("un", op, a)
def where(a, f): return ("where", a, f)
def darrow(a, f): return ("darrow", a, f)
def seqarrow(a, f, with_at=False): return ("seqarrow", with_at, a, f)
def fn(p, body): return ("fn", p, body)
def dotfn(body): return ("dotfn", body)          # implicit \. binder: source shows only the body
def call(f, a): return ("call", f, a)
def safecall(f, a, d): return ("safecall", f, a, d)
def dot(a, n): return ("dot", a, n)
def safedot(a, n, d): return ("safedot", a, n, d)
def let(p, e1, e2): return ("let", p, e1, e2)
def arrow(e1, f): return ("arrow", e1, f)
def and_(a, b): return ("and", a, b)
def or_(a, b): return ("or", a, b)
def cond(arms, dflt=None): return ("cond", list(arms), dflt)
def condpat(c, arms): return ("condpat", c, list(arms))
def join(op, a, b): return ("join", op, a, b)
def nest(names, n, a, inv=False): return ("nest", inv, list(names), n, a)
def single_nest(n, a): return ("snest", n, a)
def rank(a, f): return ("rank", a, f)
def var(x): return ("var", x)
def true_(): return ("true",)
def false_(): return ("set", [])
def pvar(x): return ("pvar", x)
def pwild(): return ("pwild",)
def pexpr(e): return ("pexpr", e)
def pexprs(es): return ("pexprs", list(es))      # (e1, e2, ..): any of the alternatives
def parr(items): return ("parr", list(items))
def ptup(attrs): return ("ptup", list(attrs))
def pdict(entries): return ("pdict", list(entries))
def pset(items): return ("pset", list(items))
def item(p, fb=None): return ("item", p, fb)
def extra(x=None): return ("extra", x)


# ---------- source ----------
def src(e):
    k = e[0]
    if k == "lit":                       # a closed literal kept as one value (Coq: ELit)
        return src(e[1])
    if k == "num":
        return num_src(e[1])
    if k == "str":
        s = qstr(e[1])
        return s if e[2] == 0 else "(%s\\%s)" % (num_src(e[2]), s)
    if k == "bytes":
        s = "<<" + ", ".join(str(b) for b in e[1]) + ">>"
        return s if e[2] == 0 else "(%s\\%s)" % (num_src(e[2]), s)
    if k == "arr":
        s = "[" + ", ".join("" if x is None else src(x) for x in e[1]) + "]"
        return s if e[2] == 0 else "(%s\\%s)" % (num_src(e[2]), s)
    if k == "set":
        return "{" + ", ".join(src(x) for x in e[1]) + "}"
    if k == "true":
        return "true"
    if k == "tup":
        return "(" + ", ".join("%s: %s" % (attr_name(n), src(x)) for n, x in e[1]) + ")"
    if k == "dict":
        if not e[1]:
            return "{}"
        return "{" + ", ".join("%s: %s" % (src(a), src(b)) for a, b in e[1]) + "}"
    if k == "rel":
        return "{|" + ", ".join(attr_name(n) for n in e[1]) + "| " + ", ".join("(" + ", ".join(src(x) for x in r) + ")" for r in e[2]) + "}"
    if k == "bin":
        return "(%s %s %s)" % (src(e[2]), e[1], src(e[3]))
    if k == "cmp":
        return "(%s %s %s)" % (src(e[2]), e[1], src(e[3]))
    if k == "un":
        if e[1] == "count":
            return "(%s count)" % src(e[2])
        return "(%s%s)" % (e[1], src(e[2]))
    if k == "where":
        return "(%s where %s)" % (src(e[1]), fsrc(e[2]))
    if k == "darrow":
        return "(%s => %s)" % (src(e[1]), fsrc(e[2]))
    if k == "seqarrow":
        return "(%s %s %s)" % (src(e[2]), ">>>" if e[1] else ">>", fsrc(e[3]))
    if k == "fn":
        return "(\\%s %s)" % (psrc(e[1]), src(e[2]))
    if k == "dotfn":
        return src(e[1])
    if k == "call":
        return "%s(%s)" % (src_callee(e[1]), src(e[2]))
    if k == "safecall":
        return "(%s(%s)?:%s)" % (src_callee(e[1]), src(e[2]), src(e[3]))
    if k == "dot":
        if e[1] == ("var", "."):
            return ".%s" % attr_name(e[2])
        return "%s.%s" % (src_callee(e[1]), attr_name(e[2]))
    if k == "safedot":
        if e[1] == ("var", "."):
            return "(.%s?:%s)" % (attr_name(e[2]), src(e[3]))
        return "(%s.%s?:%s)" % (src_callee(e[1]), attr_name(e[2]), src(e[3]))
    if k == "let":
        return "(let %s = %s; %s)" % (psrc(e[1]), src(e[2]), src(e[3]))
    if k == "arrow":
        return "(%s -> %s)" % (src(e[1]), fsrc(e[2]))
    if k == "and":
        return "(%s && %s)" % (src(e[1]), src(e[2]))
    if k == "or":
        return "(%s || %s)" % (src(e[1]), src(e[2]))
    if k == "cond":
        arms = ["%s: %s" % (src(c), src(v)) for c, v in e[1]]
        if e[2] is not None:
            arms.append("_: %s" % src(e[2]))
        return "(cond {" + ", ".join(arms) + "})"
    if k == "condpat":
        return "(cond (%s) {" % src(e[1]) + ", ".join("%s: %s" % (psrc(p), src(v)) for p, v in e[2]) + "})"
    if k == "var":
        return e[1]
    if k == "join":
        return "(%s %s %s)" % (src(e[2]), e[1], src(e[3]))
    if k == "nest":
        return "(%s nest %s|%s|%s)" % (src(e[4]), "~" if e[1] else "", ", ".join(e[2]), e[3])
    if k == "snest":
        return "(%s nest %s)" % (src(e[2]), e[1])
    if k == "rank":
        return "(%s rank %s)" % (src(e[1]), fsrc(e[2]))
    raise ValueError(k)


def fsrc(f):
    """function operand of an arrow-like operator: an explicit \\p body must not be parenthesised
    (a parenthesised function is an ordinary expression and gets wrapped in the implicit \\. binder)"""
    if f[0] == "fn":
        return "\\%s %s" % (psrc(f[1]), fsrc(f[2]) if f[2][0] == "fn" else src(f[2]))
    return src(f)


def src_callee(e):
    s = src(e)
    if e[0] in ("var",) or s.startswith("(") or s.startswith("{") or s.startswith("[") or s.startswith('"') or s.startswith("<<"):
        return s
    return "(" + s + ")"


def psrc(p):
    k = p[0]
    if k == "pvar":
        return p[1]
    if k == "pwild":
        return "_"
    if k == "pexpr":
        e = p[1]
        if e[0] == "num" and e[1] >= 0 and e[1] == int(e[1]):
            return src(e)
        if e[0] == "str" and e[2] == 0:
            return src(e)
        return "(" + src(e) + ")"
    if k == "pexprs":
        return "(" + ", ".join(src(e) for e in p[1]) + ")"
    if k == "parr":
        return "[" + ", ".join(isrc(i) for i in p[1]) + "]"
    if k == "ptup":
        return "(" + ", ".join(("..." + (i[1] or "")) if i[0] == "extra" else "%s%s: %s" % (attr_name(n), "?" if i[2] is not None else "", isrc(i)) for n, i in p[1]) + ")"
    if k == "pdict":
        ksrc = lambda ke: "(%s)" % src(ke) if ke[0] == "var" else src(ke)       # a name as a key is an expression: (x)
        return "{" + ", ".join(("..." + (i[1] or "")) if i[0] == "extra" else "%s%s: %s" % (ksrc(ke), "?" if i[2] is not None else "", isrc(i)) for ke, i in p[1]) + "}"
    if k == "pset":
        return "{" + ", ".join(isrc(i) for i in p[1]) + "}"
    raise ValueError(k)


def isrc(i):
    if i[0] == "extra":
        return "..." + (i[1] or "")
    s = psrc(i[1])
    if i[2] is not None:
        s += ":" + src(i[2])
    return s


# ---------- Coq ----------
def cname(n):
    return name_term(n)


def seq_lit(kind, off, vals):
    return "(ELit (VSet (vseq_from %s (%d) %s)))" % (kind, off, "[" + "; ".join(vals) + "]")


def lit_val(e):
    """a closed literal (numbers, strings, sets, tuples, arrays, dicts of literals) as a Coq val term"""
    k = e[0]
    if k == "num":
        return num_coq(e[1])
    if k == "str":
        return "(VSet (vseq_from n_char (%d) [%s]))" % (e[2], "; ".join("(vint %d)" % ord(c) for c in e[1]))
    if k == "set":
        return "(VSet [%s])" % "; ".join(lit_val(x) for x in e[1])
    if k == "tup":
        return "(VTup [%s])" % "; ".join("(%s, %s)" % (cname(n), lit_val(x)) for n, x in e[1])
    if k == "arr":
        return "(VSet [%s])" % "; ".join("(vitem (%d) %s)" % (e[2] + i, lit_val(x)) for i, x in enumerate(e[1]) if x is not None)
    if k == "dict":
        return "(VSet [%s])" % "; ".join("(ventry %s %s)" % (lit_val(a), lit_val(b)) for a, b in e[1])
    if k == "true":
        return "vtrue"
    raise ValueError(k)


def coq(e):
    k = e[0]
    if k == "lit":
        return "(ELit %s)" % lit_val(e[1])
    if k == "num":
        return "(ELit %s)" % num_coq(e[1])
    if k == "str":
        return seq_lit("n_char", e[2], ["(vint %d)" % ord(c) for c in e[1]])
    if k == "bytes":
        return seq_lit("n_byte", e[2], ["(vint %d)" % b for b in e[1]])
    if k == "arr":
        inner = "(EArrE [" + "; ".join("None" if x is None else "Some %s" % coq(x) for x in e[1]) + "])"
        if e[2] == 0:
            return inner
        return "(EBin BOffset (ELit %s) %s)" % (num_coq(e[2]), inner)
    if k == "set":
        return "(ESetE [" + "; ".join(coq(x) for x in e[1]) + "])"
    if k == "true":
        return "(ELit vtrue)"
    if k == "tup":
        return "(ETupE [" + "; ".join("(%s, %s)" % (cname(n), coq(x)) for n, x in e[1]) + "])"
    if k == "dict":
        return "(EDictE [" + "; ".join("(%s, %s)" % (coq(a), coq(b)) for a, b in e[1]) + "])"
    if k == "rel":
        rows = ["(ETupE [" + "; ".join("(%s, %s)" % (cname(n), coq(x)) for n, x in zip(e[1], r)) + "])" for r in e[2]]
        return "(ESetE [" + "; ".join(rows) + "])"
    if k == "bin":
        return "(EBin %s %s %s)" % (BINOPS[e[1]], coq(e[2]), coq(e[3]))
    if k == "cmp":
        return "(ECmp %s %s %s)" % (CMPOPS[e[1]], coq(e[2]), coq(e[3]))
    if k == "un":
        return "(EUn %s %s)" % (UNOPS[e[1]], coq(e[2]))
    if k == "where":
        return "(EWhere %s %s)" % (coq(e[1]), coq(e[2]))
    if k == "darrow":
        return "(EDArrow %s %s)" % (coq(e[1]), coq(e[2]))
    if k == "seqarrow":
        return "(ESeqArrow %s %s %s)" % ("true" if e[1] else "false", coq(e[2]), coq(e[3]))
    if k == "fn":
        return "(EFn %s %s)" % (pcoq(e[1]), coq(e[2]))
    if k == "dotfn":
        return "(EFn (PVar %s) %s)" % (cname("."), coq(e[1]))
    if k == "call":
        return "(ECall %s %s)" % (coq(e[1]), coq(e[2]))
    if k == "safecall":
        return "(ESafeCall %s %s %s)" % (coq(e[1]), coq(e[2]), coq(e[3]))
    if k == "dot":
        return "(EDot %s %s)" % (coq(e[1]), cname(e[2]))
    if k == "safedot":
        return "(ESafeDot %s %s %s)" % (coq(e[1]), cname(e[2]), coq(e[3]))
    if k == "let":
        return "(ELet %s %s %s)" % (pcoq(e[1]), coq(e[2]), coq(e[3]))
    if k == "arrow":
        return "(EArrow %s %s)" % (coq(e[1]), coq(e[2]))
    if k == "and":
        return "(EAnd %s %s)" % (coq(e[1]), coq(e[2]))
    if k == "or":
        return "(EOr %s %s)" % (coq(e[1]), coq(e[2]))
    if k == "cond":
        return "(ECond [" + "; ".join("(%s, %s)" % (coq(c), coq(v)) for c, v in e[1]) + "] %s)" % (
            "None" if e[2] is None else "(Some %s)" % coq(e[2]))
    if k == "condpat":
        return "(ECondPat %s [" % coq(e[1]) + "; ".join("(%s, %s)" % (pcoq(p), coq(v)) for p, v in e[2]) + "])"
    if k == "var":
        return "(EVar %s)" % cname(e[1])
    if k == "join":
        return "(EJoin %s %s %s)" % (JOINOPS[e[1]], coq(e[2]), coq(e[3]))
    if k == "nest":
        return "(ENest %s [%s] %s %s)" % ("true" if e[1] else "false", "; ".join(cname(n) for n in e[2]), cname(e[3]), coq(e[4]))
    if k == "snest":
        return "(ESingleNest %s %s)" % (cname(e[1]), coq(e[2]))
    if k == "rank":
        return "(ERank %s %s)" % (coq(e[1]), coq(e[2]))
    raise ValueError(k)


def pcoq(p):
    k = p[0]
    if k == "pvar":
        return "(PVar %s)" % cname(p[1])
    if k == "pwild":
        return "PWild"
    if k == "pexpr":
        return "(PExpr %s)" % coq(p[1])
    if k == "pexprs":
        return "(PExprs [" + "; ".join(coq(e) for e in p[1]) + "])"
    if k == "parr":
        return "(PArr [" + "; ".join(icoq(i) for i in p[1]) + "])"
    if k == "ptup":
        return "(PTup [" + "; ".join("(%s, %s)" % (cname(n), icoq(i)) for n, i in p[1]) + "])"
    if k == "pdict":
        return "(PDict [" + "; ".join("(%s, %s)" % (coq(ke) if ke is not None else "(ELit (VSet []))", icoq(i)) for ke, i in p[1]) + "])"
    if k == "pset":
        return "(PSet [" + "; ".join(icoq(i) for i in p[1]) + "])"
    raise ValueError(k)


def icoq(i):
    if i[0] == "extra":
        return "(PExtra %s)" % ("None" if i[1] is None else "(Some %s)" % cname(i[1]))
    return "(PItem %s %s)" % (pcoq(i[1]), "None" if i[2] is None else "(Some %s)" % coq(i[2]))


def size(e):
    if isinstance(e, tuple):
        return 1 + sum(size(x) for x in e[1:])
    if isinstance(e, list):
        return sum(size(x) for x in e)
    return 0
