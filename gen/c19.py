"""C19: arrai.OutputValue (--out) on a real file system vs the Coq model Sys/OutFS.v."""
import concurrent.futures
import random
from common import *

PROP = "C19"
PROP_FILES = ["Properties/C19.v", "Check/C19Check.v"]
QUIRKS = ["q_dry_mkdir", "q_skip_unsupported", "q_name_escapes", "q_replace_unvalidated", "q_multi_panic",
          "q_stat_err_ignored", "q_close_err_ignored", "q_kind_unchecked"]
WORDS = ["ignore", "remove", "replace", "merge", "fail"]
NAMES = ["a", "b", "c", "d"]
ODD_NAMES = ["../esc", "..", ".", "./a", "a/", "a/b", "../../x", "/abs", "b/../a", "a//c", "..."]


# ---------- generation of result values (arr.ai source) ----------

def q(s):
    return "'" + s + "'"


def gen_content(rng):
    return rng.choice(["'x'", "'hello'", "'yy'", "<<1,2>>", "<<0>>", "''", "<<>>", "'z\\n'"])


def gen_invalid(rng):
    return rng.choice(["5", "[1,2]", "{1,2}", "\\x x", "{1:'x'}", "(a:1)", "{(a:1)}", "0.5", "{'k':1}|{'k':2}", "//math.pi"])


def gen_names(rng, n, odd):
    out = []
    for _ in range(n):
        nm = rng.choice(ODD_NAMES) if rng.random() < odd else rng.choice(NAMES)
        if nm not in out:
            out.append(nm)
    return out


def gen_tuple(rng, depth, p):
    parts = []
    r = rng.random()
    if r < 0.8:
        w = rng.choice(WORDS) if rng.random() < 0.9 else rng.choice(["bogus", "", "Replace", "MERGE"])
        parts.append("ifExists: " + (q(w) if rng.random() < 0.96 else rng.choice(["5", "{}", "<<102,97,105,108>>"])))
    k = rng.random()
    dirv = gen_dict(rng, depth - 1, p) if rng.random() < 0.93 else rng.choice(["'x'", "5", "[1]", "{}"])
    filev = gen_content(rng) if rng.random() < 0.93 else rng.choice(["5", "{'a':'x'}", "[1]"])
    if k < 0.4:
        parts.append("dir: " + dirv)
    elif k < 0.8:
        parts.append("file: " + filev)
    elif k < 0.88:
        parts.append("dir: " + dirv)
        parts.append("file: " + filev)
    if rng.random() < 0.05:
        parts.append("extra: 1")
    return "(" + ", ".join(parts) + ")"


def gen_entry(rng, depth, p):
    r = rng.random()
    if r < p["invalid"]:
        return gen_invalid(rng)
    if depth <= 0 or r < 0.45:
        return gen_content(rng)
    if r < 0.7:
        return gen_dict(rng, depth - 1, p)
    return gen_tuple(rng, depth, p)


def gen_dict(rng, depth, p):
    n = rng.choice([0, 1, 1, 2, 2, 3])
    names = gen_names(rng, n, p["odd"])
    if not names:
        return "{}"
    return "{" + ", ".join(q(nm) + ": " + gen_entry(rng, depth, p) for nm in names) + "}"


def gen_prior(rng, p):
    """prior file system: entries below /w/out on the generator's names, of both kinds, plus bystanders outside"""
    prior = []
    r = rng.random()
    if r < 0.03:
        return [], "parent-missing"
    if r < 0.06:
        return [["/w/out", "f", [7]]], "path-is-file"
    prior.append(["/w", "d"])
    shape = "fresh"
    if rng.random() < p["existing"]:
        shape = "existing"
        prior.append(["/w/out", "d"])

        def fill(base, depth):
            for nm in NAMES:
                x = rng.random()
                if x < 0.3:
                    prior.append([base + "/" + nm, "f", [rng.randrange(65, 70)] * rng.randrange(0, 3)])
                elif x < 0.55:
                    prior.append([base + "/" + nm, "d"])
                    if depth > 0:
                        fill(base + "/" + nm, depth - 1)
        fill("/w/out", 1)
    # bystanders: must never change
    if rng.random() < 0.7:
        prior.append(["/w/esc", "f", [1]])
    if rng.random() < 0.5:
        prior.append(["/w/outer/keep", "f", [2]])
    if rng.random() < 0.5:
        prior.append(["/w/out2/a", "f", [3]])
    if rng.random() < 0.3:
        prior.append(["/x", "f", [4]])
    return prior, shape


CORPUS = [
    # (src, prior, out) -- probes of the property text, the design's findings, past failures
    ("{'a.txt':'hi','d':{'x':<<1,2>>,'e':{}}}", [["/w", "d"]], "dir:/w/out"),
    ("{'a':'1','b':{'c':'2'},'z':[1,2]}", [["/w", "d"]], "dir:/w/out"),
    ("{'n': 5}", [["/w", "d"]], "dir:/w/out"),
    ("{'a':'1','n': 5}", [["/w/out", "d"]], "dir:/w/out"),
    ("{'../esc':'boo'}", [["/w/esc", "f", [1]]], "dir:/w/out"),
    ("{'t':(ifExists:'replace',dir:{'a':{1}})}", [["/w/out/t/keep", "f", [65]]], "dir:/w/out"),
    ("{'t':(ifExists:'replace',dir:{'a':'new'})}", [["/w/out/t/keep", "f", [65]]], "dir:/w/out"),
    ("{'t':(ifExists:'replace',file:'new')}", [["/w/out/t/keep", "f", [65]]], "dir:/w/out"),
    ("{'t':(ifExists:'replace',dir:{'a':(ifExists:'fail',file:'n')})}", [["/w/out/t/a", "f", [65]]], "dir:/w/out"),
    ("{'t':(ifExists:'merge',dir:{'a':'new'})}", [["/w/out/t/keep", "f", [65]], ["/w/out/t/a", "f", [66]]], "dir:/w/out"),
    ("{'t':(ifExists:'merge',dir:{'a':'new'})}", [["/w/out/t", "f", [65]]], "dir:/w/out"),
    ("{'t':(ifExists:'ignore',dir:{'a':'new'})}", [["/w/out/t/keep", "f", [65]]], "dir:/w/out"),
    ("{'t':(ifExists:'ignore',file:'new')}", [["/w/out/t", "f", [65]]], "dir:/w/out"),
    ("{'t':(ifExists:'remove')}", [["/w/out/t/keep", "f", [65]], ["/w/out/t2", "f", [1]]], "dir:/w/out"),
    ("{'t':(ifExists:'remove')}", [["/w/out", "d"]], "dir:/w/out"),
    ("{'t':(ifExists:'fail',file:'new')}", [["/w/out/t", "f", [65]]], "dir:/w/out"),
    ("{'t':(ifExists:'fail',file:'new')}", [["/w/out", "d"]], "dir:/w/out"),
    ("{'a':'1','t':(ifExists:'fail',file:'new')}", [["/w/out/t", "f", [65]]], "dir:/w/out"),
    ("{'a':'1','d':{'x':'2'}}", [["/w/out/d", "f", [65]]], "dir:/w/out"),
    ("{'a':'1','d':'2'}", [["/w/out/d/k", "f", [65]]], "dir:/w/out"),
    ("{'a':'1','./a':'2','a/':'3'}", [["/w", "d"]], "dir:/w/out"),
    ("{'a':'0','k':1}|{'k':2}", [["/w", "d"]], "dir:/w/out"),
    ("{'a':'1'}", [], "dir:/w/out"),
    ("{'a':'1'}", [["/w/out", "f", [1]]], "dir:/w/out"),
    ("{}", [["/w", "d"]], "dir:/w/out"),
    ("{'d':{'e':{}}, 'f':(dir:{})}", [["/w", "d"]], "dir:/w/out"),
    ("{'d':{'e':{'x':5}}}", [["/w", "d"]], "dir:/w/out"),
    ("{'a':(file:'x'),'b':(dir:{'c':'y'}),'c':()}", [["/w", "d"]], "dir:/w/out"),
    ("{'a':(ifExists:'merge',file:'x')}", [["/w", "d"]], "dir:/w/out"),
    ("{'a':(ifExists:'replace',file:'x',dir:{})}", [["/w/out/a", "d"]], "dir:/w/out"),
    ("{'a':(ifExists:'bogus',file:'x')}", [["/w", "d"]], "dir:/w/out"),
    ("{'a':(ifExists:'remove',file:'x')}", [["/w/out/a", "d"]], "dir:/w/out"),
    ("{'b':{'c':'1'},'a':(ifExists:'remove',file:'x')}", [["/w/out/a", "d"]], "dir:/w/out"),
    ("5", [["/w", "d"]], "dir:/w/out"),
    ("'hello'", [["/w", "d"]], "file:/w/f.txt"),
    ("<<1,2,3>>", [["/w/f.txt", "f", [9, 9, 9, 9]]], "file:/w/f.txt"),
    ("''", [["/w", "d"]], "file:/w/f.txt"),
    ("5", [["/w", "d"]], "file:/w/f.txt"),
    ("{'a':'x'}", [["/w", "d"]], "file:/w/f.txt"),
    ("'x'", [["/w/f.txt", "d"]], "file:/w/f.txt"),
]


def gen_cases(rng, tier):
    cases = []

    def add(src, prior, out, kind, faults=False):
        cases.append({"id": len(cases), "src": src, "prior": prior, "out": out, "fs": "os", "faults": faults, "stream": kind})
    for src, prior, out in CORPUS:
        add(src, prior, out, "corpus", faults=True)
    n = 500 if tier == "quick" else 4000
    for i in range(n):
        r = rng.random()
        if r < 0.6:      # main stream: inside the guard (simple names, supported kinds), rich prior states
            p = {"invalid": 0.03, "odd": 0.0, "existing": 0.75}
            kind = "valid"
        elif r < 0.85:   # invalid members at every depth
            p = {"invalid": 0.2, "odd": 0.03, "existing": 0.6}
            kind = "invalid"
        else:            # odd names
            p = {"invalid": 0.05, "odd": 0.35, "existing": 0.6}
            kind = "names"
        src = gen_dict(rng, 3, p)
        prior, shape = gen_prior(rng, p)
        add(src, prior, "dir:/w/out", kind, faults=(i % (4 if tier == "quick" else 6) == 0))
    for i in range(20 if tier == "quick" else 100):
        src = rng.choice([gen_content(rng), gen_invalid(rng), gen_dict(rng, 1, {"invalid": 0, "odd": 0})])
        prior = rng.choice([[["/w", "d"]], [["/w/f", "f", [1, 2]]], [["/w/f", "d"]], []])
        add(src, prior, "file:/w/f", "filemode", faults=True)
    return cases


# ---------- Coq term emitters ----------

def path_term(p):
    comps = [c for c in p.split("/") if c]
    return "[" + "; ".join(zl(list(c.encode("utf-8"))) for c in reversed(comps)) + "]"


def fs_term(snap):
    parts = []
    for e in snap:
        node = "Dir" if e[1] == "d" else "(File %s)" % zl(e[2])
        parts.append("(%s, %s)" % (path_term(e[0]), node))
    return "[" + "; ".join(parts) + "]"


def desc_term(d):
    if "S" in d:
        return "(VStr %s)" % zl(d["S"])
    if "B" in d:
        return "(VBytes %s)" % zl(d["B"])
    if "E" in d:
        return "VEmpty"
    if "X" in d:
        return "VSetOther"
    if "O" in d:
        return "VOther"
    if "M" in d:
        return "VMulti"
    if "D" in d:
        es = []
        for k, v in d["D"]:
            kt = "(KStr %s)" % zl(k["s"]) if "s" in k else "KOther"
            es.append("(%s, %s)" % (kt, desc_term(v)))
        return "(VDict [" + "; ".join(es) + "])"
    if "T" in d:
        t = d["T"]

        def opt(n):
            return "(Some %s)" % desc_term(t[n]) if n in t else "None"
        return "(VTup %s %s %s)" % (opt("ifExists"), opt("dir"), opt("file"))
    raise ValueError(d)


def cls_term(st):
    return {"ok": "OOk", "err": "OErr", "panic": "OPanic"}.get(st, "OBad")


def quirks_term(on):
    return "(Build_quirks " + " ".join(cbool(n in on) for n in QUIRKS) + ")"


def case_term(cid, c, o, fault, st, after):
    mode, _, arg = c["out"].partition(":")
    return "{| c_id := %d; c_filemode := %s; c_val := %s; c_path := %s; c_prior := %s; c_fault := %s; c_cls := %s; c_after := %s |}" % (
        cid, cbool(mode == "file"), desc_term(o["desc"]), path_term(arg), fs_term(o["before"]),
        "None" if fault is None else "(Some %d%%nat)" % fault, cls_term(st), fs_term(after))


def decode(code):
    return {"agree": bool(code & 1), "oracle": bool(code & 2), "guard": bool(code & 4),
            "K": [QUIRKS[i] for i in range(8) if (code >> 3) & (1 << i)], "nops": code >> 11}


def run_model(run, entries, q_on, shard=400):
    """entries: list of (cid, coq term). Returns {cid: decoded}."""
    chunks = [entries[i:i + shard] for i in range(0, len(entries), shard)]

    def do(ic):
        idx, chunk = ic
        body = ["From Coq Require Import List ZArith.", "Import ListNotations.", "Open Scope Z_scope.",
                "From Arrai Require Import Sys.OutFS Check.C19Check.", "Definition cases : list case19 := ["]
        body.append(";\n".join("  " + t for _, t in chunk))
        body.append("].\nDefinition R := Eval vm_compute in report %s cases.\nPrint R." % quirks_term(q_on))
        rc, so, se = coq_eval("c19_cases_%d" % idx, "\n".join(body))
        return coq_report(so, "R"), se
    res = {}
    with concurrent.futures.ThreadPoolExecutor(max_workers=12) as ex:
        for rep, se in ex.map(do, enumerate(chunks)):
            if rep is None:
                run.corr_breaks.append({"what": "model evaluation failed (Check/C19Check.v)", "log": se[-1500:]})
                continue
            for cid, code in rep:
                res[cid] = decode(code)
    return res


def main(tier, seed, replay=None):
    run = Run(PROP, tier, seed)
    vh, proof = prepare(PROP_FILES, thorough=(tier == "thorough"))
    rng = random.Random(seed)
    q_on = [f["sig"] for f in run.opened if f["sig"] in QUIRKS]
    if replay:
        rp = json.load(open(replay))
        cases = [dict(rp["case"], id=0, faults=True, fs="os")] if "case" in rp else []
    else:
        cases = gen_cases(rng, tier)
    tmpbase = os.path.join(workdir(), "fs")
    os.makedirs(tmpbase, exist_ok=True)
    outs, rc, err = run_harness(vh, "c19", cases, env={"VERIF_C19_TMP": tmpbase})
    entries, meta = [], {}
    hist = {"stream": {}, "class": {}, "words": {}, "prior": {}, "fault_op": {}}
    unusable = 0
    for c in cases:
        o = outs.get(c["id"])
        hist["stream"][c.get("stream", "replay")] = hist["stream"].get(c.get("stream", "replay"), 0) + 1
        if o is None or o.get("st") in ("evalerr", "setuperr", None):
            unusable += 1
            continue
        hist["class"][o["st"]] = hist["class"].get(o["st"], 0) + 1
        for w in WORDS:
            if ("ifExists: '%s'" % w) in c["src"]:
                hist["words"][w] = hist["words"].get(w, 0) + 1
        pk = "empty" if not c["prior"] else ("out-exists" if any(e[0].startswith("/w/out") for e in c["prior"]) else "out-fresh")
        hist["prior"][pk] = hist["prior"].get(pk, 0) + 1
        cid = len(entries)
        meta[cid] = (c, o, None, o)
        entries.append((cid, case_term(cid, c, o, None, o["st"], o["after"])))
        for fr in o.get("faultruns", []):
            cid = len(entries)
            meta[cid] = (c, o, fr["k"], fr)
            entries.append((cid, case_term(cid, c, o, fr["k"], fr["st"], fr["after"])))
            hist["fault_op"][fr.get("fired", "?")] = hist["fault_op"].get(fr.get("fired", "?"), 0) + 1
    results = run_model(run, entries, q_on)
    seen, dist = set(), 0
    aligned = {}
    stats = {"agree": 0, "guard_false": 0, "oracle_fail": 0, "fault_runs": 0, "defect_region_inexact": 0}
    for cid in sorted(results):
        c, o, k, obs = meta[cid]
        d = results[cid]
        rec = {"case": {"src": c["src"], "prior": c["prior"], "out": c["out"]}, "fault_at_op": k,
               "observed": {"st": obs["st"], "after": obs["after"], "msg": obs.get("msg"), "ops": o.get("ops")},
               "model": d}
        if k is None:
            aligned[c["id"]] = (d["nops"] == o["nops"])
            key = (c["src"], json.dumps(c["prior"]), c["out"])
            if key not in seen:
                seen.add(key)
                if o["st"] == "ok" and o["after"] != o["before"]:
                    dist += 1
            rec["oracle"] = ("the repaired model (theorems of Properties/C19.v) says: success with exactly the described tree, "
                             "or failure with the file system unchanged; the implementation did neither")
        else:
            stats["fault_runs"] += 1
            rec["oracle"] = "an I/O error was injected at file system operation %d (%s) and the command reported success" % (k, obs.get("fired"))
            if not aligned.get(c["id"], False):
                # operation sequences of model and code differ: only the oracle on the implementation is usable
                if not d["oracle"]:
                    sig = {"stat": "q_stat_err_ignored", "close": "q_close_err_ignored"}.get(obs.get("fired"))
                    run.classify_failure(sig, rec)
                continue
        stats["agree"] += d["agree"]
        stats["guard_false"] += (not d["guard"])
        if not d["oracle"]:
            stats["oracle_fail"] += 1
            if d["guard"] or not d["K"]:
                run.classify_failure(None, rec)
            elif not d["agree"]:
                stats["defect_region_inexact"] += 1
                rec["note"] = "inside a known-defect region, but the implementation does not do what the bug-compatible model does"
                run.classify_failure(None, rec)
            else:
                for sig in d["K"]:
                    run.classify_failure(sig, rec)
        elif not d["agree"]:
            if d["guard"]:
                run.corr_breaks.append({"what": "implementation differs from the model although the property's oracle holds", **rec})
            else:
                run.notes.append("case %r: quirk model over-approximates (oracle holds, I != Mq)" % (c["src"],))
    nal = sum(1 for v in aligned.values() if not v)
    if nal:
        run.corr_breaks.append({"what": "the sequence of file system operations differs from the model on %d fault-free cases" % nal,
                                "example": next(meta[cid][0]["src"] for cid in sorted(results) if meta[cid][2] is None and not aligned[meta[cid][0]["id"]])})
    if unusable:
        run.notes.append("%d generated sources did not evaluate (not counted)" % unusable)
    run.cov.update({
        "evaluations": len(entries), "distinct_nontrivial": dist,
        "rule": "cases = (generated arr.ai result value: nested dicts, strings, bytes, empty entries, config tuples with all five ifExists words and bad ones, "
                "invalid members at every depth, names with / . ..) x (generated prior tree on the same names, kind-compatible and clashing, plus bystander files outside PATH) "
                "run through arrai.OutputValue on the real OS file system confined to a fresh temp directory, whole tree snapshotted before/after; "
                "for a subset every file system operation k is made to fail in turn; the same case is evaluated by the Coq model (vm_compute). "
                "distinct by (source, prior, out); non-trivial = the fault-free run succeeds and changes the file system",
        "samples": [{"src": cases[i]["src"], "prior": cases[i]["prior"], "out": cases[i]["out"]} for i in range(0, len(cases), max(1, len(cases) // 8))][:8],
        "histograms": hist, "stats": stats, "quirks_on": q_on, "exhaustive": False,
    })
    run.assumptions = ["the OS file system behaves as the lookup-table model of Sys/OutFS.v (Stat/Mkdir/Create/Write/Sync/Close/RemoveAll; no symlinks, no permissions, single writer) - exercised by this run",
                       "the harness's descOf is the abstraction from rel.Value to the model's description (kinds decided by the same Go type tests as out.go; dictionary order = DictEnumerator order)",
                       "PATH is absolute and clean"]
    return run.finish(proof)
