"""C16: local imports (//{./p}, //{/p}) on a recording file system vs the Coq models
Sys/Import.v (path resolution, confinement) and Sys/ImportCache.v (import graphs, cycles),
plus the reference stream for the Go path/strings models of Sys/GoPath.v."""
import concurrent.futures
import itertools
import random
from common import *

PROP = "C16"
PROP_FILES = ["Properties/C16.v", "Check/C16Check.v"]
QUIRKS = ["q_import_trim_after_join", "q_import_dir_as_file", "q_import_cycle_hangs"]
NSHARD = 6
USE_STRING_LITERALS = False     # measured: no cheaper for Coq to elaborate than numeral lists (3.9 s vs 3.2 s per 150 cases)

# ---------- layouts (relative to a per-shard base directory) ----------
COMMON_FILES = {
    "proj/x.arrai": "1", "proj/sub/y.arrai": "2", "proj/sub/deep/z.arrai": "3", "proj/sub.arrai": "4",
    "proj/ ../x.arrai": "5", "proj/sub/ /y.arrai": "6", "proj/a../x.arrai": "7", "proj/ax.arrai": "8",
    "proj/.../x.arrai": "9", "proj/..x.arrai": "10", "proj/data.txt": "hello", "proj/sub/ x.arrai": "11",
    "x.arrai": "666", "out/secret.arrai": "667", "proj.arrai": "668", "out/data.txt": "secret", "y.arrai": "669",
    "proj/sub/deep.arrai": "12", "proj/sub/x.arrai": "13", "proj/y.arrai": "14",
}
LAYOUTS = {
    "mod": dict(COMMON_FILES, **{"proj/go.mod": "module m"}),
    "nomod": dict(COMMON_FILES),
    "nested": dict(COMMON_FILES, **{"proj/go.mod": "module m", "proj/sub/go.mod": "module n"}),
    "moddir": dict(COMMON_FILES, **{"proj/go.mod/": "", "go.mod": "module top"}),   # go.mod is a directory in proj
}
# (cwd relative to base, main path given to EvaluateExpr ($B = base), SourceDir the compiler derives)
SITES = [
    ("proj", "main.arrai", "."),
    ("proj", "", "."),
    ("proj", "sub/main.arrai", "sub"),
    ("proj/sub", "../main.arrai", ".."),
    ("proj/sub/deep", "main.arrai", "."),
    ("proj/sub/deep", "../../main.arrai", "../.."),
    ("", "$B/proj/main.arrai", "$B/proj"),
    ("out", "$B/proj/sub/main.arrai", "$B/proj/sub"),
    ("proj", "./sub/deep/main.arrai", "sub/deep"),
    ("", "proj/main.arrai", "proj"),
]

SEGS = [".", "..", "...", " ", " ..", ".. ", "\t..", "..\n", ". .", "x", "sub", "deep", "y", "z", "a..", "ax", "..x",
        "%2e%2e", "..%2f", "\\", "..\\", "\\..", "x.arrai", "go.mod", "data.txt", "secret", "out", "proj", "", "", " x", "x ",
        "proj.arrai", "sub.arrai", "..;", " ..", "....", " ...", "~"]
WS = ["", "", "", " ", "\t", "\n", "  ", " \t\n"]


def rand_name(rng, base):
    """PKGPATH text: starts with '/', no '}'"""
    r = rng.random()
    if r < 0.12:      # absolute-looking forms
        tgt = rng.choice(["/out/secret", "/x", "/out/data.txt", "/proj/x", "/proj/sub/y", "/nonexistent"])
        lead = rng.choice([" ", "\t", "\n", " \t", "", "/", " /", "./", " ./", "../", " ../"])
        return "/" + lead + base + tgt + rng.choice(WS)
    n = rng.choice([1, 1, 2, 2, 3, 3, 4, 5, 6])
    parts = [rng.choice(SEGS) for _ in range(n)]
    sep = lambda: rng.choice(["/", "/", "/", "/", "//", "/./", "/ /"])
    s = "/"
    for i, p in enumerate(parts):
        s += p + (sep() if i < n - 1 else rng.choice(["", "", "", "/"]))
    return s + rng.choice(WS)


def valid_name(rng):
    """spellings of existing files: detours, '.', doubled separators, trailing blanks"""
    tgt = rng.choice([["x"], ["sub", "y"], ["sub", "deep", "z"], ["y"], ["sub", "x"], ["data.txt"], ["sub", "deep"], ["x.arrai"], ["sub"]])
    out = []
    for seg in tgt:
        k = rng.random()
        if k < 0.2:
            out += [rng.choice(["sub", "q", "deep", " "]), ".."]
        elif k < 0.35:
            out += ["."]
        elif k < 0.45:
            out += [""]
        out.append(seg)
    k = rng.random()
    if k < 0.08:                                      # cleans to exactly ".." or "../..": names the parent directory itself
        d = rng.choice([[], [], ["sub"], ["deep"], ["q", "."], ["sub", "deep"]])
        up = [".."] * (len([x for x in d if x != "."]) + rng.choice([1, 1, 1, 2]))
        return "/" + "/".join(d + up + rng.choice([[], [], [""], ["."]])) + rng.choice(WS)
    if k < 0.15:
        out = [".."] * rng.choice([1, 2]) + out       # rejected (relative) or absorbed (root form)
    elif k < 0.3:                                     # descend, then climb past the start: only Clean sees the ".." prefix
        d = rng.choice([["sub"], ["sub", "deep"], ["q"], ["sub", ".", "deep"], [" "]])
        out = d + [".."] * (len([x for x in d if x != "."]) + rng.choice([1, 1, 2, 3])) + out
    return "/" + "/".join(out) + rng.choice(WS)


CORPUS_R = [   # (layout, site index, dot, name)  -- witnesses of the findings and past mismatches run first
    ("mod", 0, True, "/ ../x"), ("nomod", 0, True, "/ ../x"), ("mod", 1, True, "/ ../x"), ("mod", 4, True, "/ ../../../../x"),
    ("mod", 0, False, "/ $B/out/secret"), ("mod", 6, False, "/\t$B/out/data.txt"), ("nested", 7, False, "/ $B/x"),
    ("mod", 6, True, "/"), ("nomod", 7, True, "/"), ("mod", 7, True, "/."), ("nomod", 7, True, "/deep/.."), ("mod", 6, False, "/"),
    ("mod", 0, True, "/sub/../../x"), ("mod", 0, True, "/sub/deep/../../../x"), ("mod", 2, True, "/deep/../../../x"),
    ("nomod", 2, True, "/q/../../x"), ("mod", 0, False, "/sub/../../x"), ("mod", 6, True, "/sub/.././../out/secret"),
    # paths that clean to exactly ".." / "../..": Join gives the parent directory and fileValue appends ".arrai"
    ("mod", 7, True, "/.."), ("nomod", 8, True, "/.."), ("mod", 6, True, "/.."), ("mod", 7, True, "/../"), ("mod", 7, True, "/deep/../.."),
    ("mod", 7, True, "/.. "), ("mod", 7, True, "/deep/../../."), ("nomod", 7, True, "/.."), ("mod", 8, True, "/../.."), ("nomod", 9, True, "/.."),
    ("mod", 2, True, "/.."), ("mod", 0, True, "/.."), ("mod", 7, True, "/../.."), ("nested", 7, True, "/.."), ("mod", 7, False, "/.."),
    ("mod", 0, True, "/x"), ("mod", 2, False, "/sub/y"), ("mod", 0, False, "/a../x"), ("mod", 0, False, "/.../x"),
    ("mod", 0, True, "/../x"), ("mod", 0, False, "/../../x"), ("nomod", 0, False, "/x"), ("mod", 0, True, "/x "),
    ("mod", 0, True, "/sub/../x"), ("mod", 0, True, "/sub//./y"), ("nested", 7, False, "/y"), ("moddir", 6, False, "/x"),
    ("mod", 0, True, "/..x"), ("mod", 0, True, "/ /../x"), ("mod", 3, True, "/x"), ("mod", 5, True, "/y"),
    ("mod", 0, True, "/data.txt"), ("mod", 0, True, "/sub"), ("mod", 0, True, "/sub/deep"), ("mod", 0, False, "/ ../x"),
    ("mod", 0, False, "/../ /$B/x"), ("mod", 0, True, "/\n../x"), ("mod", 0, True, "/ ..\\x"), ("mod", 0, True, "/%2e%2e/x"),
]


def gen_res_cases(rng, tier):
    n = 360 if tier == "quick" else 7000
    specs = list(CORPUS_R)
    lay_names = list(LAYOUTS)
    for _ in range(n):
        lay = rng.choice(["mod", "mod", "mod", "nomod", "nested", "moddir"])
        site = rng.randrange(len(SITES))
        dot = rng.random() < 0.55
        name = valid_name(rng) if rng.random() < 0.45 else rand_name(rng, "$B")
        specs.append((lay, site, dot, name))
    if tier == "thorough":   # exhaustive small scope: all names of <= 3 segments over a small alphabet, both forms, two sites
        alpha = ["..", ".", " ..", "x", "sub", " ", ""]
        for k in (1, 2, 3):
            for t in itertools.product(alpha, repeat=k):
                for dot in (True, False):
                    for site in (0, 7):
                        specs.append(("mod", site, dot, "/" + "/".join(t)))
    return specs


# ---------- import graphs ----------
def gen_graph_cases(rng, tier):
    """each case: files a<i>.arrai in one directory, contents '1 + //{./a<j>} + ...'; main script = a0's text"""
    cases = []
    fixed = [   # (graph as {i: [imports]}, main imports)
        ({1: [2], 2: []}, [1]), ({1: [2, 3], 2: [3], 3: []}, [1, 2]),          # acyclic, diamond
        ({1: []}, [1, 1]),                                                       # same file twice
        ({0: [0]}, [0]),                                                         # self-import through main
        ({1: [1]}, [1]),                                                         # self-import of an imported file
        ({0: [1], 1: [0]}, [1]),                                                 # a <-> b (main = a)
        ({1: [2], 2: [1]}, [1]),                                                 # 2-cycle below main
        ({1: [2], 2: [3], 3: [1]}, [1]),                                         # 3-cycle
        ({1: [2], 2: []}, [1, 9]),                                               # missing file after a good one
        ({1: [9]}, [1]),                                                         # missing file below
        ({1: [2, 3], 2: [], 3: [1]}, [1]),                                       # cycle reached after a finished sibling
    ]
    for g, m in fixed:
        cases.append((g, m))
    nacyc, ncyc = (40, 8) if tier == "quick" else (400, 60)
    for _ in range(nacyc):     # random DAGs (imports only to higher indices), sometimes a missing file
        n = rng.randrange(1, 7)
        g = {}
        for i in range(1, n + 1):
            g[i] = sorted(rng.sample(range(i + 1, n + 1), rng.randrange(0, min(3, n - i) + 1))) if i < n else []
            if rng.random() < 0.3:
                rng.shuffle(g[i])
            if rng.random() < 0.04:
                g[i].append(99)
        m = [rng.randrange(1, n + 1) for _ in range(rng.randrange(1, 4))]
        cases.append((g, m))
    for _ in range(ncyc):      # random graphs with back edges
        n = rng.randrange(1, 6)
        g = {i: [rng.randrange(0 if rng.random() < 0.3 else 1, n + 1) for _ in range(rng.randrange(0, 3))] for i in range(0, n + 1)}
        m = g[0] if g[0] else [1]
        g[0] = m
        cases.append((g, m))
    return cases


# ---------- import graphs with several spellings of one file (memory fs, module root possibly "/") ----------
def pclean(p):
    import posixpath
    q = posixpath.normpath(p)
    return "/" + q.lstrip("/") if q.startswith("/") else q


def imp_parts(form, target):
    """(dot, PKGPATH) of the import statement for one edge"""
    d, _, b = target.rpartition("/")
    if form == "rel":
        return True, "/" + target
    if form == "det":
        return True, "/" + (d + "/" if d else "") + "q/../" + b
    if form == "dbl":
        return False, "//" + target.replace("/", "//")
    return False, "/" + target


def imp_text(form, target):
    dot, name = imp_parts(form, target)
    return "//{" + ("." if dot else "") + name + "}"


def module_root(root, mods, sd):
    """nearest ancestor-or-self of directory sd holding go.mod (the specification's module root)"""
    have = {pclean((root if root else "") + "/" + m + "/") for m in mods} | {root if root else "/"}
    d = sd
    while True:
        if d in have:
            return d
        if d == "/":
            return None
        d = pclean(d.rpartition("/")[0] + "/")


def spelled_resolve(root, mods, importer_raw, form, target):
    """raw file name handed to ReadFile/bytesValue (simple names only; re-derived by the Coq model, report_e,
    and cross-checked by the observed opens)"""
    sd = pclean(importer_raw.rpartition("/")[0] + "/")
    if form in ("rel", "det"):
        return pclean(sd + "/" + target) + ".arrai"
    root_path = module_root(root, mods, sd)
    return root_path + "/" + pclean("/" + target).strip("/") + ".arrai"


def gen_spelled_cases(rng, tier):
    """spec = (root, {file (relative to the root, no extension): [(form, text)]}, main imports, nested module dirs);
    text is what follows ./ (rel, det) or / (root, dbl: relative to the importing file's module root)"""
    specs = []
    for root in ("", "/m", "/srv/mod"):
        files = {"x/a": [("rel", "b")], "x/b": [("root", "x/a")],
                 "y/p": [("rel", "q")], "y/q": [("root", "y/r")], "y/r": [("det", "p")],
                 "lib/leaf": [], "lib/both": [("rel", "leaf"), ("root", "lib/leaf"), ("dbl", "lib/leaf")]}
        for m in ([("rel", "x/a")], [("root", "x/a")], [("rel", "x/b")], [("rel", "y/p")], [("root", "y/r")], [("dbl", "x/b")],
                  [("rel", "lib/both")], [("rel", "lib/both"), ("root", "lib/leaf"), ("det", "lib/leaf")]):
            specs.append((root, files, m, []))
        # nested module "inner" (and "inner/deep/mod") with same-named files p, lib in the outer and the inner root:
        # a //{/p} from a script in the nested root directory, or deeper, must read the nested root's p whatever
        # was resolved before in the same evaluation (the root cache lives in the context)
        nfiles = {"p": [], "lib": [], "inner/p": [], "inner/lib": [], "inner/entry": [("root", "p")], "inner/deep/x": [("root", "p")],
                  "inner/deep/p": [], "inner/two": [("root", "p"), ("rel", "deep/x")], "inner/deep/mod/p": [], "inner/deep/mod/e": [("root", "p")],
                  "outer_user": [("root", "p")]}
        for mods in (["inner"], ["inner", "inner/deep/mod"]):
            for m in ([("root", "lib"), ("rel", "inner/entry")], [("rel", "inner/entry"), ("root", "lib")],
                      [("root", "lib"), ("rel", "inner/entry"), ("rel", "inner/deep/x")], [("rel", "inner/deep/x"), ("rel", "inner/entry")],
                      [("root", "p"), ("rel", "inner/two")], [("rel", "outer_user"), ("rel", "inner/deep/mod/e"), ("rel", "inner/entry")],
                      [("rel", "inner/entry"), ("rel", "outer_user")], [("root", "lib"), ("rel", "inner/deep/mod/e")]):
                specs.append((root, nfiles, m, mods))
    n = 30 if tier == "quick" else 300
    dirs = ["x", "x/s", "y", "x/s/t"]
    for _ in range(n):
        root = rng.choice(["", "", "/m", "/srv/mod", "/r/deep/er"])
        mods = [d for d in ("x", "x/s", "x/s/t") if rng.random() < 0.35]
        k = rng.randrange(2, 7)
        names = sorted(set("%s/f%d" % (rng.choice(dirs), rng.randrange(3)) for i in range(k)))   # same basenames in several dirs
        k = len(names)
        cyc = rng.random() < 0.35

        def mroot(fd):
            c = [m for m in mods if fd == m or fd.startswith(m + "/")]
            return max(c, key=len) if c else ""
        files = {}
        for i, f in enumerate(names):
            imps = []
            fd = f.rpartition("/")[0]
            mr = mroot(fd)
            for _ in range(rng.randrange(0, 3)):
                j = rng.randrange(k) if cyc else (rng.randrange(i + 1, k) if i + 1 < k else None)
                if j is None:
                    continue
                t = names[j]
                forms = []
                if mr == "" or t.startswith(mr + "/"):
                    forms += ["root", "root", "dbl"]
                if t.startswith(fd + "/"):
                    forms += ["rel", "rel", "det"]
                if not forms:          # other module: spell it from this module's root anyway (another file or a missing one)
                    imps.append(("root", t.rpartition("/")[2]))
                    continue
                form = rng.choice(forms)
                imps.append((form, t[len(fd) + 1:] if form in ("rel", "det") else (t[len(mr) + 1:] if mr else t)))
            files[f] = imps
        m = []
        for _ in range(rng.randrange(1, 4)):
            t = rng.choice(names)
            m.append((rng.choice(["rel", "rel", "root", "det", "dbl"]), t))
        specs.append((root, files, m, mods))
    return specs


def build_spelled_case(cid, shard, spec, budget):
    root, files, m = spec[:3]
    mods = list(spec[3]) if len(spec) > 3 else []
    main_raw = root + "/main.arrai"
    order = sorted(files)
    const = {pclean(root + "/" + f + ".arrai"): 10 ** i for i, f in enumerate(order)}
    exist = {pclean(root + "/" + f + ".arrai"): imps for f, imps in files.items()}
    names, graph, todo, edges = {}, {}, [], []

    def key(importer, form, t):
        raw = spelled_resolve(root, mods, importer, form, t)
        edges.append((importer, form, t, raw))
        if raw not in names:
            names[raw] = len(names) + 1
            todo.append(raw)
        return names[raw]
    main_keys = [key(main_raw, form, t) for form, t in m]
    while todo:
        raw = todo.pop(0)
        imps = exist.get(pclean(raw))
        if imps is not None:
            graph[names[raw]] = [key(raw, form, t) for form, t in imps]
    byname = {v: k for k, v in names.items()}

    def value(k, stack):
        """value the specification assigns: file constant + values of its imports (None: cycle or missing file)"""
        if k not in graph or k in stack:
            return None
        tot = const[pclean(byname[k])]
        for j in graph[k]:
            v = value(j, stack | {k})
            if v is None:
                return None
            tot += v
        return tot
    expect = 1
    for k in main_keys:
        v = value(k, frozenset())
        expect = None if (v is None or expect is None) else expect + v
    text = lambda c, imps: str(c) + "".join(" + " + imp_text(form, t) for form, t in imps)
    hfiles = {p: text(const[p], imps) for p, imps in exist.items()}
    gomods = [root if root else "/"] + [pclean(root + "/" + d) for d in mods]
    for d in gomods:
        hfiles[pclean(d + "/go.mod")] = "module m"
    return {"id": cid, "kind": "s", "graph": {str(k): v for k, v in graph.items()}, "main": main_keys, "base": "mem%d" % shard,
            "names": names, "edges": edges, "gomods": gomods, "expect": expect,
            "spec": [root, {f: [list(x) for x in imps] for f, imps in files.items()}, [list(x) for x in m], mods],
            "h": {"id": cid, "fs": "mem", "files": hfiles, "main": main_raw, "src": text(1, m), "budget_ms": budget}}


def graph_text(imps):
    return "1" + "".join(" + //{./a%d}" % j for j in imps)


# ---------- GoPath reference stream ----------
PFN = {"clean": "FClean", "join": "FJoin", "dir": "FDir", "ext": "FHasExt", "trimws": "FTrimWs", "trimslash": "FTrimSlash",
       "strip": "FStrip", "hasprefix": "FHasPrefix", "absfrom": "FAbs"}


def gen_path_cases(rng, tier):
    cases = []
    alpha = "/./. a\t\nb\\%/.."

    def rs(maxlen=12):
        return "".join(rng.choice(alpha) for _ in range(rng.randrange(maxlen + 1)))
    n = 800 if tier == "quick" else 12000
    for _ in range(n):
        fn = rng.choice(list(PFN))
        a, b = rs(), ""
        if fn == "join":
            b = rs(8)
        elif fn == "hasprefix":
            b = rng.choice(["/", "..", "../", a[:2], "."])
        elif fn == "absfrom":
            b = rng.choice(["/", "/var/tmp", "/var"])
        cases.append((fn, a, b))
    if tier == "thorough":
        for k in range(0, 7):
            for t in itertools.product("/.a ", repeat=k):
                s = "".join(t)
                for fn in ("clean", "strip", "dir", "ext"):
                    cases.append((fn, s, ""))
    else:
        for k in range(0, 5):
            for t in itertools.product("/.a", repeat=k):
                s = "".join(t)
                for fn in ("clean", "strip"):
                    cases.append((fn, s, ""))
    return cases


# ---------- helpers ----------
def bts(s):
    return list(s.encode("utf-8"))


def sv(bs):
    """Coq term for a byte string: a string literal when printable ASCII, else a list of numerals"""
    bs = list(bs)
    if USE_STRING_LITERALS and bs and all(32 <= b <= 126 for b in bs):
        return '(S16 "%s"%%string)' % bytes(bs).decode("ascii").replace('"', '""')
    return zl(bs)


def svl(bss):
    return "[" + "; ".join(sv(b) for b in bss) + "]"


def gomod_dirs(base, files):
    ds = []
    for k in files:
        if k == "go.mod" or k.endswith("/go.mod"):
            ds.append(os.path.normpath(os.path.join(base, os.path.dirname(k))))
    d = os.path.dirname(base)
    while True:
        if os.path.isfile(os.path.join(d, "go.mod")):
            ds.append(d)
        if d == "/":
            break
        d = os.path.dirname(d)
    return ds


def build_res_case(cid, base, spec):
    lay, site, dot, name = spec
    cwd_rel, main, sd = SITES[site]
    name_r = name.replace("$B", base)
    src = "//{" + ("." if dot else "") + name_r + "}"
    cwd = os.path.normpath(os.path.join(base, cwd_rel))
    return {"id": cid, "kind": "r", "layout": lay, "site": site, "dot": dot, "name": name, "base": base,
            "h": {"id": cid, "base": base, "files": LAYOUTS[lay], "cwd": cwd, "main": main.replace("$B", base), "src": src, "budget_ms": 8000},
            "cwd": cwd, "sd": sd.replace("$B", base), "name_r": name_r, "gomods": gomod_dirs(base, LAYOUTS[lay])}


def build_graph_case(cid, base, spec, budget):
    g, m = spec
    files = {"g/a%d.arrai" % i: graph_text(imps) for i, imps in g.items()}
    files["g/keep.txt"] = ""
    return {"id": cid, "kind": "g", "graph": {str(k): v for k, v in g.items()}, "main": m, "base": base,
            "h": {"id": cid, "base": base, "files": files, "cwd": base + "/g", "main": "a0.arrai", "src": graph_text(m), "budget_ms": budget}}


def coq_res_case(c, o):
    stats = [x[1] for x in o.get("opens", []) if x[0] == "stat"]
    opens = [x[1] for x in o.get("opens", []) if x[0] == "open"]
    return ("{| r_id := %d; r_cwd := %s; r_gomods := %s; r_dot := %s; r_name := %s; r_sd := %s; r_stats := %s; r_opens := %s; r_err := %s |}" % (
        c["id"], sv(bts(c["cwd"])), svl([bts(d) for d in c["gomods"]]), cbool(c["dot"]), sv(bts(c["name_r"])), sv(bts(c["sd"])),
        svl(stats), svl(opens), cbool(o.get("st") == "err")))


def coq_graph_case(c, o):
    cls = {"ok": 0, "err": 1, "timeout": 2, "crash": 2}.get(o.get("st"), 3)
    trace = []
    for op, nm in o.get("opens", []):
        if op != "open":
            continue
        s = bytes(nm).decode("utf-8", "replace")
        if "names" in c:
            trace.append(c["names"].get(s, -1))
            continue
        mm = re.fullmatch(r"a(\d+)\.arrai", s)
        trace.append(int(mm.group(1)) if mm else -1)
    g = "[" + "; ".join("(%s, %s)" % (k, zl(v)) for k, v in sorted(c["graph"].items(), key=lambda kv: int(kv[0]))) + "]"
    return "{| g_id := %d; g_graph := %s; g_main := %s; g_class := %d; g_trace := %s |}" % (c["id"], g, zl(c["main"]), cls, zl(trace))


def qcur_term(open_sigs):
    return "{| q_import_trim_after_join := %s; q_import_dir_as_file := %s; q_import_cycle_hangs := %s |}" % tuple(
        cbool(q in open_sigs) for q in QUIRKS)


def harness_sharded(vh, cases):
    """cases already carry their shard's base; run one harness process per shard in parallel"""
    by = {}
    for c in cases:
        by.setdefault(c["base"], []).append(c["h"])
    outs = {}

    def do(hs):
        o, rc, err = run_harness(vh, "c16", hs, timeout=1500)
        return o
    with concurrent.futures.ThreadPoolExecutor(max_workers=NSHARD) as ex:
        for o in ex.map(do, by.values()):
            outs.update(o)
    return outs


def coq_reports(run, name, header, records, expr, shard=150):
    """evaluate `expr` (a report over `cases`) on chunks of records; returns {id: code}"""
    res = {}
    chunks = [records[i:i + shard] for i in range(0, len(records), shard)]

    def do(ic):
        i, chunk = ic
        body = ["From Coq Require Import String.",
                "From Coq Require Import List ZArith Bool. Import ListNotations. Open Scope Z_scope.",
                "From Arrai Require Import Sys.GoPath Sys.Import Sys.ImportCache Check.C16Check.",
                "Definition cases : list %s := [" % header, ";\n".join(chunk), "].",
                "Definition R := Eval vm_compute in %s." % expr, "Print R."]
        rc, so, se = coq_eval("%s_%d" % (name, i), "\n".join(body))
        return coq_report(so, "R"), se
    with concurrent.futures.ThreadPoolExecutor(max_workers=10) as ex:
        for rep, se in ex.map(do, enumerate(chunks)):
            if rep is None:
                run.corr_breaks.append({"what": "model evaluation failed (Check/C16Check.v, %s)" % name, "log": se[-1500:]})
                continue
            for cid, code in rep:
                res[cid] = code
    return res


def show(o):
    """observation with byte lists rendered as text (for replay files)"""
    if not o:
        return o
    o = dict(o)
    o["opens"] = [[op, bytes(nm).decode("utf-8", "backslashreplace")] for op, nm in o.get("opens", [])]
    o.pop("val", None) if o.get("st") != "ok" else None
    return o


def main(tier, seed, replay=None):
    run = Run(PROP, tier, seed)
    vh, proof = prepare(PROP_FILES, thorough=(tier == "thorough"))
    log("c16: prepare done at %.1fs" % (time.time() - run.t0))
    open_sigs = {f["sig"] for f in run.opened}
    qcur = qcur_term(open_sigs)
    hang_cur = cbool("q_import_cycle_hangs" in open_sigs)
    import tempfile
    work = tempfile.mkdtemp(prefix="c16-", dir="/var/tmp")      # short absolute names keep the Coq case files small
    try:
        return main_in(run, vh, proof, open_sigs, qcur, hang_cur, work, tier, seed, replay)
    finally:
        shutil.rmtree(work, ignore_errors=True)


def main_in(run, vh, proof, open_sigs, qcur, hang_cur, work, tier, seed, replay):
    bases = [os.path.join(work, "s%d" % i) for i in range(NSHARD)]
    seeds = [seed] if tier == "quick" else [seed, seed + 1000, seed + 2000]
    rspecs, gspecs, pspecs, sspecs = [], [], [], []
    if replay:
        rp = json.load(open(replay))
        c = rp.get("case", {})
        if c.get("kind") == "r":
            rspecs = [(c["layout"], c["site"], c["dot"], c["name"])]
        elif c.get("kind") == "g":
            gspecs = [({int(k): v for k, v in c["graph"].items()}, c["main"])]
        elif c.get("kind") == "s":
            r0, f0, m0 = c["spec"][:3]
            sspecs = [(r0, {f: [tuple(x) for x in imps] for f, imps in f0.items()}, [tuple(x) for x in m0],
                       c["spec"][3] if len(c["spec"]) > 3 else [])]
        elif c.get("kind") == "p":
            pspecs = [(c["fn"], c["a"], c["b"])]
    else:
        for i, sd in enumerate(seeds):
            rng = random.Random(sd)
            rspecs += gen_res_cases(rng, tier if i == 0 else "quick")
            gspecs += gen_graph_cases(rng, tier if i == 0 else "quick")
            sspecs += gen_spelled_cases(rng, tier if i == 0 else "quick")
            pspecs += gen_path_cases(rng, tier if i == 0 else "quick")
    # --- resolution stream (sorted by layout within a shard so the harness re-uses the tree)
    rspecs_sorted = sorted(enumerate(rspecs), key=lambda p: (p[1][0], p[0]))
    rcases = []
    for j, (i, spec) in enumerate(rspecs_sorted):
        rcases.append(build_res_case(i, bases[j * NSHARD // max(1, len(rspecs_sorted))], spec))
    budget = 1500 if tier == "quick" else 2000
    gcases = [build_graph_case(100000 + i, bases[i % NSHARD], spec, budget) for i, spec in enumerate(gspecs)]
    gcases += [build_spelled_case(150000 + i, i % 2, spec, budget) for i, spec in enumerate(sspecs)]
    outs = harness_sharded(vh, rcases) if rcases else {}
    gouts = harness_sharded(vh, gcases) if gcases else {}
    # a missing answer is only believed after a second, longer look (load on the machine; the first
    # import of a non-.arrai file compiles the implicit decoder, which can take seconds on a busy host)
    for cs, os_, long_ms in ((gcases, gouts, 20000), (rcases, outs, 60000)):
        again = [c for c in cs if (os_.get(c["id"]) or {}).get("st") in (None, "timeout", "crash")
                 and not (c["kind"] != "r" and "q_import_cycle_hangs" in open_sigs)]
        for c in again[:12]:
            h2 = dict(c["h"], budget_ms=long_ms)
            o2, _, _ = run_harness(vh, "c16", [h2], timeout=long_ms // 1000 + 60, stall=long_ms // 1000 + 30)
            if o2.get(c["id"]):
                os_[c["id"]] = o2[c["id"]]
    log("c16: harness done at %.1fs" % (time.time() - run.t0))
    byid = {c["id"]: c for c in rcases + gcases}
    harness_bad = [c["id"] for c in rcases + gcases if (outs.get(c["id"]) or gouts.get(c["id"]) or {}).get("st") in (None, "harness-error")]
    if harness_bad:
        run.corr_breaks.append({"what": "harness produced no observation", "ids": harness_bad[:10],
                                "example": outs.get(harness_bad[0]) or gouts.get(harness_bad[0])})
    rrecs = [coq_res_case(c, outs[c["id"]]) for c in rcases if outs.get(c["id"], {}).get("st") in ("ok", "err")]
    rres = coq_reports(run, "c16r", "case16r", rrecs, "report_r (%s) cases" % qcur) if rrecs else {}
    grecs = [coq_graph_case(c, gouts[c["id"]]) for c in gcases if gouts.get(c["id"], {}).get("st") in ("ok", "err", "timeout", "panic", "crash")]
    gres = coq_reports(run, "c16g", "case16g", grecs, "report_g %s cases" % hang_cur) if grecs else {}
    log("c16: coq r+g done at %.1fs" % (time.time() - run.t0))
    # --- GoPath stream
    pcases = [{"id": 200000 + i, "fn": fn, "a": bts(a), "b": bts(b)} for i, (fn, a, b) in enumerate(pspecs)]
    pouts, _, _ = run_harness(vh, "gopath", pcases, timeout=600) if pcases else ({}, 0, "")
    precs = []
    for c in pcases:
        o = pouts.get(c["id"])
        if not o or "r" not in o:
            run.corr_breaks.append({"what": "gopath harness failed", "case": c, "observed": o})
            continue
        r = o["r"]
        if c["fn"] == "ext":
            r = [49] if r else [48]
        elif c["fn"] == "hasprefix":
            r = [49] if r == [49] else [48]
        precs.append("{| p_id := %d; p_fn := %s; p_a := %s; p_b := %s; p_r := %s |}" % (c["id"], PFN[c["fn"]], sv(c["a"]), sv(c["b"]), sv(r)))
    pres = coq_reports(run, "c16p", "case16p", precs, "report_p cases", shard=600) if precs else {}
    # --- edges of the spelled graphs: the generator's resolution re-derived by the repaired Coq model
    erecs, eby = [], {}
    for c in gcases:
        if c["kind"] != "s":
            continue
        for j, (importer, form, t, raw) in enumerate(c["edges"]):
            dot, name = imp_parts(form, t)
            eid = c["id"] * 1000 + j
            eby[eid] = (c, importer, form, t, raw)
            erecs.append("{| e_id := %d; e_gomods := %s; e_dot := %s; e_name := %s; e_importer := %s; e_expect := %s |}" % (
                eid, zll([bts(d) for d in c["gomods"]]), cbool(dot), zl(bts(name)), zl(bts(importer)), zl(bts(raw))))
    eres = coq_reports(run, "c16e", "case16e", erecs, "report_e cases", shard=500) if erecs else {}
    for eid in sorted(eres)[:5]:
        c, importer, form, t, raw = eby[eid]
        run.corr_breaks.append({"what": "generator and Sys/Import.v resolve disagree on an edge of a spelled graph",
                                "edge": [importer, imp_text(form, t), raw], "gomods": c["gomods"]})
    pby = {c["id"]: c for c in pcases}
    for cid, code in sorted(pres.items()):
        c = pby[cid]
        run.corr_breaks.append({"what": "Go %s differs from its model in Sys/GoPath.v" % c["fn"],
                                "case": {"kind": "p", "fn": c["fn"], "a": bytes(c["a"]).decode(), "b": bytes(c["b"]).decode()},
                                "observed": bytes(pouts[cid]["r"]).decode("utf-8", "backslashreplace")})
    log("c16: gopath done at %.1fs" % (time.time() - run.t0))
    # --- verdicts
    hist = {"codes": {}, "outcome": {}, "form": {"dot": 0, "root": 0}, "layout": {}, "site": {}, "graph": {}}
    seen, dist = set(), 0
    for c in rcases:
        o = outs.get(c["id"], {})
        code = rres.get(c["id"], 0)
        hist["codes"][str(code)] = hist["codes"].get(str(code), 0) + 1
        hist["form"]["dot" if c["dot"] else "root"] += 1
        hist["layout"][c["layout"]] = hist["layout"].get(c["layout"], 0) + 1
        hist["site"][SITES[c["site"]][2]] = hist["site"].get(SITES[c["site"]][2], 0) + 1
        nopen = sum(1 for x in o.get("opens", []) if x[0] == "open")
        oc = "panic/timeout" if o.get("st") in ("panic", "timeout") else ("value" if o.get("st") == "ok" else ("read-failed" if nopen else "rejected"))
        hist["outcome"][oc] = hist["outcome"].get(oc, 0) + 1
        key = (c["layout"], c["site"], c["dot"], c["name"])
        if key not in seen:
            seen.add(key)
            if nopen:
                dist += 1
        rec = {"case": {"kind": "r", "layout": c["layout"], "site": c["site"], "dot": c["dot"], "name": c["name"],
                        "src": c["h"]["src"], "cwd": c["cwd"], "main": c["h"]["main"], "source_dir": c["sd"]},
               "observed": show(o)}
        if o.get("st") in ("panic", "timeout", "crash"):
            rec["oracle"] = "a local import must give a value or an error"
            run.classify_failure(None, rec)
        elif code == 1:
            rec["oracle"] = "a file outside the module root (or outside the importing directory when there is no module) was opened; the model is confined here (Properties/C16.v C16_confinement)"
            run.classify_failure(None, rec)
        elif code >= 10:
            bits = code - 10
            sigs = [q for b, q in ((1, QUIRKS[0]), (2, QUIRKS[1])) if bits & b]
            rec["oracle"] = "a file outside the module root (or the importing directory) was opened"
            rec["quirks_attributed"] = sigs
            if sigs and all(s in open_sigs for s in sigs):
                for s in sigs:
                    run.classify_failure(s, rec)
            else:
                run.classify_failure(None, rec)
        elif code == 2:
            run.corr_breaks.append({"what": "implementation differs from Sys/Import.v resolve (oracle holds)", **rec})
        elif code == 3:
            run.notes.append("outside the guard the implementation differs from the quirk model on %r" % (c["h"]["src"],))
    for c in gcases:
        o = gouts.get(c["id"], {})
        code = gres.get(c["id"], 0)
        hist["codes"]["g%d" % code] = hist["codes"].get("g%d" % code, 0) + 1
        hist["graph"][o.get("st", "?")] = hist["graph"].get(o.get("st", "?"), 0) + 1
        key = ("g", json.dumps(c["graph"], sort_keys=True), tuple(c["main"]))
        if key not in seen:
            seen.add(key)
            if len(c["graph"]) >= 2:
                dist += 1
        rec = {"case": {"kind": c["kind"], "graph": c["graph"], "main": c["main"], "files": c["h"]["files"], "src": c["h"]["src"]},
               "observed": show(o)}
        if c["kind"] == "s":
            rec["case"].update({"spec": c["spec"], "main_path": c["h"]["main"], "fs": "memory", "keys": c["names"], "go_mod_dirs": c["gomods"]})
            if o.get("st") == "ok" and c["expect"] is not None:
                try:
                    got = float(o["val"]["n"])
                except Exception:
                    got = None
                if got != float(c["expect"]):
                    rec["oracle"] = ("the value differs from the one the specification assigns (each file = its constant + its imports, a //{/x} import "
                                     "resolved against the nearest go.mod ancestor of the importing file whatever was resolved before): a file outside "
                                     "the importing script's module root was read (Properties/C16.v C16_root_import_confined_to_nearest_module, "
                                     "C16_root_cache_transparent)")
                    rec["expected_value"] = c["expect"]
                    run.classify_failure(None, rec)
                    continue
        if o.get("st") == "panic" or code == 1:
            rec["oracle"] = "evaluation must answer; value iff the import graph reachable from the main script is acyclic and complete, error otherwise (Properties/C16.v C16_cycles_fail_fast, C16_success_means_acyclic)"
            run.classify_failure(None, rec)
        elif code == 14:
            rec["oracle"] = "an import cycle must be reported as an error; no answer within %d ms" % c["h"]["budget_ms"]
            rec["quirks_attributed"] = [QUIRKS[2]]
            run.classify_failure(QUIRKS[2], rec)
        elif code == 2:
            run.corr_breaks.append({"what": "implementation differs from Sys/ImportCache.v compile_main (oracle holds)", **rec})
        elif code == 3:
            run.notes.append("outside the guard the implementation differs from the quirk model on graph %s" % json.dumps(c["graph"]))
    if not replay:
        for f in run.opened:   # an open finding that no longer reproduces is a broken correspondence
            if f["id"] not in run.known_hits:
                run.corr_breaks.append({"what": "open finding %s (%s) was not reproduced by its witnesses" % (f["id"], f["sig"])})
    run.cov.update({
        "evaluations": len(rcases) + len(gcases) + len(pcases),
        "distinct_nontrivial": dist,
        "rule": "resolution cases = (layout of 4, importing site of %d: working directory x main path x SourceDir, form ./ or /, PKGPATH text) "
                "with texts from a grammar of '.', '..', blanks/tabs/newlines, backslashes, %%2e, doubled separators and absolute-looking forms "
                "(45%% spellings of existing files); each evaluated by syntax.EvaluateExpr on a recording afero fs over a real temp tree and by "
                "the Coq model (vm_compute), comparing Stat calls, opened names and error class; graph cases = files importing each other "
                "(DAGs, self-import, 2/3-cycles, missing files) under a wall-clock bound, plus graphs on a memory fs whose module root is '/', '/m', ... and whose edges mix ./, ./q/../, / and // spellings of one file (keys = raw file names, as the cache and the cycle check see them); gopath cases = Go path/strings functions vs Sys/GoPath.v. "
                "distinct by (layout, site, form, text) resp. graph; non-trivial = a file was opened resp. graph has >= 2 files" % len(SITES)
                + ("; thorough adds every name of <= 3 segments over 7 segment kinds x 2 forms x 2 sites and all strings <= 6 over '/.a ' for clean/strip/dir/ext" if tier == "thorough" else ""),
        "samples": [c["h"]["src"] for c in rcases[:: max(1, len(rcases) // 8)]][:8],
        "histograms": hist,
        "streams": {"resolution": len(rcases), "graphs": len([c for c in gcases if c["kind"] == "g"]),
                    "spelled_graphs_memfs": len([c for c in gcases if c["kind"] == "s"]), "gopath": len(pcases)},
        "quirks_current": sorted(open_sigs),
        "exhaustive": False,
    })
    run.assumptions = [
        "Go path.Clean/filepath.Join/Dir/Ext/Abs and strings.Trim/HasPrefix/ReplaceAll behave as Sys/GoPath.v (checked by the gopath stream of this run)",
        "no symbolic links; the operating system resolves names lexically (beneath is a lexical notion); no fs faults other than 'does not exist'",
        "compilation is sequential: the in-flight cache keys are exactly the import stack (Sys/ImportCache.v); concurrent users of one import cache are outside the model",
        "bundles, //{github.com/...} and URL imports are outside C16",
    ]
    proof.setdefault("trusted_extra", []).append("the wbnf parser delivers PKGPATH and the optional '.' as in syntax/arrai.wbnf (exercised, not modelled)")
    return run.finish(proof)
